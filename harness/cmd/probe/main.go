package main

import (
	"fmt"
	"os"

	"github.com/aml-org/amf-custom-validator/pkg"
	"github.com/aml-org/amf-custom-validator/pkg/config"
)

func main() {
	p, _ := os.ReadFile(os.Args[1])
	d, _ := os.ReadFile(os.Args[2])
	defer func() {
		if r := recover(); r != nil {
			fmt.Println("PANIC:", r)
		}
	}()
	rep, err := pkg.ValidateWithConfiguration(string(p), string(d), false, nil, config.TestValidationConfiguration{}, config.DefaultReportConfiguration())
	fmt.Println("err:", err)
	fmt.Println(rep)
}
