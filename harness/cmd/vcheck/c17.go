package main

import (
	"errors"
	"fmt"
	"math/rand"
	"os"
	"os/exec"
	"path/filepath"
	"runtime"
	"strings"

	"verif/lib"

	"github.com/aml-org/amf-custom-validator/pkg/config"
	"github.com/aml-org/amf-custom-validator/pkg/events"
)

func init() { checks["C17"] = c17 }

const c17GoodProfile = "profile: good\nprefixes:\n  ex: http://ex.org/\nviolation:\n  - v\nwarning:\n  - w\nvalidations:\n  v:\n    targetClass: ex.T\n    message: needs a\n    propertyConstraints:\n      ex.a:\n        minCount: 1\n  w:\n    targetClass: ex.T\n    propertyConstraints:\n      ex.c / ex.a | ex.c^:\n        nested:\n          propertyConstraints:\n            ex.a:\n              pattern: ^v\n"

// C17: arbitrary bytes as profile and data: every entry point returns a report or an error; no panic, no hang.
// Valid JSON-LD without nodes yields a conforming report.
func c17(tier string) {
	ctx := lib.NewCtx("C17", tier)
	ctx.Rule = "deterministic seeded hostile inputs: structure-aware YAML mutations (16 operators) of fixture and generated profiles, hand-written degenerate profiles, byte-level damage; JSON tree mutations / JSON-LD keyword type confusion / source-map type confusion of fixture and generated data, degenerate documents, byte-level damage; fresh processes in unusual environments (standard streams that are broken pipes / closed / a full device, a removed working directory, an empty environment: every call must still return and answer as in a plain environment); failure bursts (40 calls failing in one way - 10 input-driven kinds and an injected panic / error at each of the 7 stages - each followed by an ordinary validation that must return what it returned before); sampled cross product (hostile x good, good x hostile, hostile x hostile) through Validate, ValidateWithConfiguration, CompileProfile, ValidateCompiled, ValidateCompiledWithConfiguration, with and without an event channel; every call runs under recover() in a worker process that records the case on disk first; " +
		"non-trivial & distinct = distinct (profile text, data text, entry point) whose input is not a pristine fixture"
	ctx.Assumptions = []string{
		"inputs are at most 64 KiB",
		"nodeless documents judged by the positive oracle are JSON objects/arrays that json-gold flattens to an empty graph (scalars as top-level documents are only checked for absence of panics)",
		"a per-case watchdog reports hangs separately (key `hang`): a call that has not returned after 180 s during which the process used less than 10 s of CPU is blocked; one that is still computing after 5 such windows does not terminate in any useful sense",
	}
	n := ctx.N(5000, 120000)
	ctx.HangIsViolation = true
	ctx.SpinIsViolation = true
	if !ctx.IsShard() {
		ctx.RunShards()
		ctx.MinDistinct = 1000
		ctx.Finish()
	}
	fx := lib.LoadFixtures(60, 60)
	goodData := append([]string{}, fx.Data...)
	goodData = append(goodData, lib.SourceMapDoc(), lib.SourceMapDoc(), c04Good)
	for k := 0; k < 10; k++ {
		goodData = append(goodData, c02Graph(lib.CaseRand(ctx.Seed, 17, 5000+k)).CanonicalJSONLD())
	}
	goodProfiles := []string{c17GoodProfile}
	for _, p := range fx.Profiles {
		// fixture profiles are seeds; only those the tool accepts count as "good" for the positive oracle
		if c := lib.Compile(p, nil); !c.Failed() {
			goodProfiles = append(goodProfiles, p)
		}
	}
	for k := 0; k < 10; k++ {
		r := lib.CaseRand(ctx.Seed, 17, 6000+k)
		w, root := lib.NewWorld(r, lib.WorldSpec{NAtoms: 2, NQuants: 1, QuantDepth: 2, MaxDepth: 3})
		p := &lib.ProfileDoc{Name: "gen", Prefixes: [][2]string{{"ex", lib.EX}}, Violation: []string{"v"},
			Validations: []lib.Validation{{Name: "v", TargetClass: "ex.T0", Message: "m {{ex.p0}}", Body: w.ToExpr(root, r)}}}
		goodProfiles = append(goodProfiles, p.Text())
	}
	specialP, specialD := lib.SpecialProfiles(), lib.SpecialData()
	good := lib.Compile(c17GoodProfile, nil)
	if good.Failed() {
		ctx.Inconclusive("reference profile does not compile: " + good.ErrString())
		ctx.FinishShard()
	}
	hostileProfile := func(r *rand.Rand) (string, string) {
		switch x := r.Intn(10); {
		case x < 5:
			for try := 0; try < 5; try++ {
				if s, ops, ok := lib.MutateYAML(r, goodProfiles[r.Intn(len(goodProfiles))], 1+r.Intn(3)); ok && len(s) < 64*1024 {
					return s, "yaml:" + ops
				}
			}
			fallthrough
		case x < 7:
			return specialP[r.Intn(len(specialP))], "special"
		default:
			s := goodProfiles[r.Intn(len(goodProfiles))]
			for k := 0; k <= r.Intn(3); k++ {
				s = lib.MutateBytes(r, s)
			}
			return s, "bytes"
		}
	}
	rangeSpellings := []string{"[(007,0)-(18,8)]", "[(0,00)-(000,0)]", "[(1,0)-(5,10)] trailing 9", "[]", "", "(1,2,3,4)", "1 2 3 4 5 6", "[(99999999999999999999999999999,0)-(1,1)]",
		"[(1.5,2)-(3,4)]", "[(-1,-2)-(-3,-4)]", "[(１,２)-(３,４)]", "[(1,2)-(3,)]", "[(1e3,2)-(3,4)]", "[(0x10,2)-(3,4)]", "[(+1,2)-(3,4)]", "\n[(1,\n2)-(3,4)]"}
	hostileData := func(r *rand.Rand) (string, string) {
		if r.Intn(12) == 0 {
			// valid JSON-LD with source maps whose recorded range is spelled unusually, on nodes that get results
			return strings.Replace(lib.SourceMapDoc(), "[(1,0)-(5,10)]", rangeSpellings[r.Intn(len(rangeSpellings))], 1), "sourcemap-range-spelling"
		}
		switch x := r.Intn(10); {
		case x < 4:
			if s, ok := lib.MutateJSONTree(r, goodData[r.Intn(len(goodData))], 1+r.Intn(3)); ok && len(s) < 64*1024 {
				return s, "json-tree"
			}
			fallthrough
		case x < 6:
			return specialD[r.Intn(len(specialD))], "special"
		case x < 7:
			c := lib.JSONLDRejectCandidates(r, goodData[:1])
			return c[r.Intn(len(c))], "jsonld-keyword"
		default:
			s := goodData[r.Intn(len(goodData))]
			for k := 0; k <= r.Intn(3); k++ {
				s = lib.MutateBytes(r, s)
			}
			if len(s) > 64*1024 {
				s = s[:64*1024]
			}
			return s, "bytes"
		}
	}
	entries := []string{"Validate", "ValidateWithConfiguration", "CompileProfile", "ValidateCompiled", "ValidateCompiledWithConfiguration"}
	// failure bursts: 40 calls that fail in the same way, one class after the other, each followed by an ordinary
	// validation that must still return the report it returned before the bursts. Whatever a failure path forgets to
	// give back (a slot, a lock, a pooled buffer) is missing after enough failures of that kind in one process.
	{
		noElement := strings.Replace(lib.SourceMapDoc(), `"http://a.ml/vocabularies/document-source-maps#element":[{"@value":"http://ex.org/n1"}],`, "", 1)
		noValue := strings.Replace(lib.SourceMapDoc(), `,"http://a.ml/vocabularies/document-source-maps#value":[{"@value":"[(7,2)-(9,4)]"}]`, "", 1)
		noRoot := strings.Replace(lib.SourceMapDoc(), `,"http://a.ml/vocabularies/document#rootLocation":[{"@value":"file:///root.yaml"}]`, "", 1)
		for _, d := range []string{noElement, noValue, noRoot} {
			if d == lib.SourceMapDoc() {
				ctx.Inconclusive("a broken source-map document of the failure bursts equals the intact one (harness)")
			}
		}
		type burst struct{ name, profile, data, fault string }
		bursts := []burst{
			{"source-map-entry-without-element", c17GoodProfile, noElement, ""},
			{"source-map-entry-without-value", c17GoodProfile, noValue, ""},
			{"source-information-without-root", c17GoodProfile, noRoot, ""},
			{"data-truncated", c17GoodProfile, `{"@graph":[`, ""},
			{"data-jsonld-rejected", c17GoodProfile, `{"@context": 5}`, ""},
			{"data-graph-is-a-number", c17GoodProfile, `{"@graph":5}`, ""},
			{"profile-yaml-error", "a: [", c11GoodData, ""},
			{"profile-unknown-prefix", "profile: x\nviolation: [v]\nvalidations:\n  v:\n    targetClass: nope.T\n    propertyConstraints:\n      nope.a:\n        minCount: 1\n", c11GoodData, ""},
			{"profile-rego-syntax-error", "profile: x\nprefixes: {ex: \"http://ex.org/\"}\nviolation: [v]\nvalidations:\n  v:\n    targetClass: ex.T\n    rego: \"$result = ((\"\n", c11GoodData, ""},
			{"evaluation-key-collision", c11KeysProfile, `[{"@id":"http://ex.org/n","@type":["http://ex.org/T"],"http://ex.org/tag":[{"@value":"Alpha"},{"@value":"alpha"}]}]`, ""},
		}
		for _, st := range c11Stages {
			bursts = append(bursts, burst{"injected-panic-" + st.hook, c17GoodProfile, c11GoodData, st.hook + ":panic"}, burst{"injected-error-" + st.hook, c17GoodProfile, c11GoodData, st.hook + ":error"})
		}
		before := lib.Validate(c17GoodProfile, c11GoodData)
		for bi, b := range bursts {
			if ctx.IsShard() && bi%4 != ctx.ShardIndex()%4 && !ctx.First() {
				continue // every class runs in four of the sixteen workers (all of them in the first)
			}
			bq := good
			if b.profile != c17GoodProfile {
				bq = lib.Compile(b.profile, nil)
			}
			failed := 0
			for k := 0; k < 40; k++ {
				entry := []string{"Validate", "ValidateWithConfiguration", "ValidateCompiled", "ValidateCompiledWithConfiguration"}[k%4]
				var chp *chan events.Event
				if k%3 == 0 {
					ch := make(chan events.Event, 64)
					chp = &ch
				}
				ctx.Begin(fmt.Sprintf("burst %s #%d %s", b.name, k, entry), map[string]string{"profile": b.profile, "data": b.data, "entry": entry, "fault": b.fault})
				if b.fault != "" {
					os.Setenv("ACV_VERIF_FAULT", b.fault)
				}
				var o lib.Outcome
				switch {
				case entry == "Validate":
					o = lib.ValidateDefault(b.profile, b.data, chp)
				case entry == "ValidateWithConfiguration":
					o = lib.ValidateCfg(b.profile, b.data, chp, lib.Epoch2000, config.DefaultReportConfiguration())
				case bq.Failed():
					o = lib.Outcome{Err: fmt.Errorf("profile cannot be precompiled")}
				case entry == "ValidateCompiled":
					o = lib.ValidateCompiledDefault(bq.Q, b.data, chp)
				default:
					o = lib.ValidateCompiledCfg(bq.Q, b.data, chp, lib.Epoch2000, config.DefaultReportConfiguration())
				}
				if b.fault != "" {
					os.Unsetenv("ACV_VERIF_FAULT")
				}
				ctx.End()
				ctx.Eval("")
				rp := map[string]any{"profile": b.profile, "data": b.data, "entry": entry, "fault": b.fault, "burst": b.name, "call": k}
				if o.Panic != nil {
					rp["stack"] = o.Stack
					ctx.Violation("panic", fmt.Sprintf("%s panicked in failure burst %s: %v", entry, b.name, o.Panic), rp)
				}
				if o.Failed() {
					failed++
					var rte runtime.Error
					if errors.As(o.Err, &rte) {
						ctx.Count("burst_calls_answered_from_a_recovered_runtime_error", 1)
					}
				}
			}
			ctx.Count("failure_bursts_run", 1)
			ctx.Count("burst_calls_that_failed", failed)
			ctx.Begin("after burst "+b.name, map[string]string{"profile": c17GoodProfile, "data": c11GoodData, "entry": "Validate"})
			after := lib.Validate(c17GoodProfile, c11GoodData)
			ctx.End()
			ctx.Eval("after-burst/" + b.name)
			if after.Failed() || after.Report != before.Report {
				ctx.Violation("changed-after-failures", fmt.Sprintf("after 40 failures of kind %s an ordinary validation no longer returns what it returned before: %s", b.name, clip(after.ErrString(), 200)),
					map[string]any{"profile": c17GoodProfile, "data": c11GoodData, "burst": b.name})
			}
		}
	}
	// unusual process environments: the same calls (reports, ordinary errors, answers from the recovered-panic path) in
	// a fresh process whose standard streams are broken pipes / closed / a full device, whose working directory was
	// removed, whose environment is empty: every call must still return, the process must not be killed
	if self := os.Getenv("VERIF_SELF"); self != "" {
		envs := []string{"plain", "stderr-is-a-broken-pipe", "stdout-is-a-broken-pipe", "all-streams-closed", "stdout-stderr-to-/dev/full", "working-directory-removed", "empty-environment"}
		tmpEnv := lib.TempDir("c17env")
		var plain string
		for ei, env := range envs {
			if ctx.IsShard() && ei%4 != ctx.ShardIndex()%4 && ei != 0 {
				continue
			}
			outFile := filepath.Join(tmpEnv, fmt.Sprintf("out-%d.txt", ei))
			cmd := exec.Command(self, "child", "env-calls", outFile)
			cmd.Env = append(os.Environ(), "VERIF_SHARD=", "VERIF_DEBUG=")
			brokenPipe := func() *os.File {
				r, w, _ := os.Pipe()
				_ = r.Close()
				return w
			}
			var toClose []*os.File
			switch env {
			case "stderr-is-a-broken-pipe":
				w := brokenPipe()
				cmd.Stderr = w
				toClose = append(toClose, w)
			case "stdout-is-a-broken-pipe":
				w := brokenPipe()
				cmd.Stdout = w
				toClose = append(toClose, w)
			case "all-streams-closed":
				// nil Stdin/Stdout/Stderr would mean /dev/null: pass closed pipes instead
				w1, w2 := brokenPipe(), brokenPipe()
				cmd.Stdout, cmd.Stderr = w1, w2
				toClose = append(toClose, w1, w2)
			case "stdout-stderr-to-/dev/full":
				if f, err := os.OpenFile("/dev/full", os.O_WRONLY, 0); err == nil {
					cmd.Stdout, cmd.Stderr = f, f
					toClose = append(toClose, f)
				}
			case "working-directory-removed":
				gone := filepath.Join(tmpEnv, "gone")
				_ = os.MkdirAll(gone, 0o755)
				cmd.Dir = gone
			case "empty-environment":
				cmd.Env = []string{}
			}
			ctx.Begin("environment "+env, map[string]string{"environment": env})
			err := cmd.Start()
			if err == nil && env == "working-directory-removed" {
				// the directory disappears right after the process started in it
				_ = os.Remove(filepath.Join(tmpEnv, "gone"))
			}
			if err == nil {
				err = cmd.Wait()
			}
			ctx.End()
			for _, f := range toClose {
				_ = f.Close()
			}
			b, _ := os.ReadFile(outFile)
			got := string(b)
			ctx.Eval("environment/" + env)
			ctx.Count("environments_run", 1)
			if env == "plain" {
				plain = got
			}
			rp := map[string]any{"environment": env, "outcomes": clip(got, 3000)}
			switch {
			case err != nil:
				ctx.Violation("killed-by-environment", fmt.Sprintf("in environment %s the process driving the library ended with %v after %d calls", env, err, strings.Count(got, "\n")), rp)
			case !strings.HasSuffix(got, "DONE\n"):
				ctx.Violation("killed-by-environment", fmt.Sprintf("in environment %s the calls did not all return (%d outcomes recorded)", env, strings.Count(got, "\n")), rp)
			case strings.Contains(got, " PANIC "):
				ctx.Violation("panic", fmt.Sprintf("in environment %s an entry point panicked", env), rp)
			case env != "empty-environment" && plain != "" && got != plain:
				ctx.Violation("environment-changes-outcomes", fmt.Sprintf("in environment %s the outcomes (report / error per call) differ from the plain environment", env), rp)
			}
		}
		_ = os.RemoveAll(tmpEnv)
	}
	ctx.ForEach(n, func(i int) {
		r := lib.CaseRand(ctx.Seed, 17, i)
		var ptext, dtext, pk, dk string
		switch i % 3 {
		case 0:
			ptext, pk = hostileProfile(r)
			dtext, dk = goodData[r.Intn(len(goodData))], "good"
		case 1:
			ptext, pk = goodProfiles[r.Intn(len(goodProfiles))], "good"
			dtext, dk = hostileData(r)
		default:
			ptext, pk = hostileProfile(r)
			dtext, dk = hostileData(r)
		}
		entry := entries[r.Intn(len(entries))]
		if pk != "good" && (entry == "ValidateCompiled" || entry == "ValidateCompiledWithConfiguration") && i%3 == 0 {
			entry = "CompileProfile" // a hostile profile can only reach the compiled entry points through CompileProfile
		}
		withChan := r.Intn(2) == 0
		var chp *chan events.Event
		if withChan {
			ch := make(chan events.Event, 64)
			chp = &ch
		}
		ctx.Begin(fmt.Sprintf("case %d %s", i, entry), map[string]string{"profile": ptext, "data": dtext, "entry": entry})
		var o lib.Outcome
		switch entry {
		case "Validate":
			o = lib.ValidateDefault(ptext, dtext, chp)
		case "ValidateWithConfiguration":
			o = lib.ValidateCfg(ptext, dtext, chp, lib.Epoch2000, config.DefaultReportConfiguration())
		case "CompileProfile":
			c := lib.Compile(ptext, chp)
			o = lib.Outcome{Err: c.Err, Panic: c.Panic, Stack: c.Stack}
			if c.Panic == nil && c.Err == nil && c.Q != nil {
				// an accepted hostile profile must also be usable
				o = lib.ValidateCompiled(c.Q, dtext)
				entry = "CompileProfile+ValidateCompiled"
			} else if c.Panic == nil && c.Err == nil && c.Q == nil {
				o.Err = nil
				o.Report = ""
				ctx.Violation("nil-without-error", "CompileProfile returned (nil, nil)", map[string]any{"profile": ptext, "data": dtext})
			}
		case "ValidateCompiled":
			o = lib.ValidateCompiledDefault(good.Q, dtext, chp)
		case "ValidateCompiledWithConfiguration":
			o = lib.ValidateCompiledCfg(good.Q, dtext, chp, lib.Epoch2000, config.DefaultReportConfiguration())
		}
		ctx.End()
		ctx.Eval(fmt.Sprintf("%x/%x/%s", hash(ptext), hash(dtext), entry))
		ctx.Count("profile_kind:"+strings.SplitN(pk, ":", 2)[0], 1)
		ctx.Count("data_kind:"+dk, 1)
		ctx.Count("entry:"+entry, 1)
		if strings.HasPrefix(pk, "yaml:") {
			for _, op := range strings.Split(strings.TrimPrefix(pk, "yaml:"), ",") {
				ctx.Mark("yaml_mutation_ops", strings.SplitN(op, ":", 2)[0])
			}
		}
		rp := map[string]any{"profile": ptext, "data": dtext, "entry": entry, "profile_kind": pk, "data_kind": dk, "with_event_channel": withChan}
		if o.Panic != nil {
			rp["stack"] = o.Stack
			ctx.Violation("panic", fmt.Sprintf("%s panicked (profile %s, data %s): %v", entry, pk, dk, o.Panic), rp)
			return
		}
		switch {
		case o.Err != nil:
			ctx.Count("outcome:error", 1)
			if o.Report != "" {
				ctx.Violation("error-and-report", fmt.Sprintf("%s returned both an error and a %d-byte report", entry, len(o.Report)), rp)
			}
		default:
			ctx.Count("outcome:report", 1)
			if entry != "CompileProfile" {
				if _, err := lib.ParseReport(o.Report); err != nil {
					ctx.Violation("neither-report-nor-error", fmt.Sprintf("%s returned a nil error and something that is not a report: %v", entry, err), rp)
				}
			}
		}
		// positive oracle: valid JSON-LD without nodes conforms (judged with good profiles only)
		if pk == "good" && entry != "CompileProfile" {
			if v, ok := lib.ReadableJSON(dtext); ok {
				_, isObj := v.(map[string]any)
				_, isArr := v.([]any)
				if (isObj || isArr) && !lib.JSONLDRejects(v) {
					if has, ok := lib.HasNodes(v); ok && !has {
						ctx.Count("nodeless_documents_judged", 1)
						rep, perr := lib.ParseReport(o.Report)
						if o.Err != nil || perr != nil || !rep.Conforms || len(rep.Results) > 0 {
							ctx.Violation("nodeless-not-conforming", fmt.Sprintf("%s on a valid JSON-LD document without nodes %q: err=%v", entry, clip(dtext, 80), o.Err), rp)
						}
					}
				}
			}
		}
		if i%1500 == 0 {
			ctx.Sample(map[string]any{"entry": entry, "profile_kind": pk, "data_kind": dk, "profile": clip(ptext, 200), "data": clip(dtext, 120), "outcome": clip(o.ErrString(), 120)})
		}
	})
	// the explicit nodeless documents, through every validating entry point
	if ctx.First() {
		for _, d := range specialD {
			v, ok := lib.ReadableJSON(d)
			if !ok {
				continue
			}
			_, isObj := v.(map[string]any)
			_, isArr := v.([]any)
			if !(isObj || isArr) || lib.JSONLDRejects(v) {
				continue
			}
			if has, ok := lib.HasNodes(v); !ok || has {
				continue
			}
			for _, o := range []lib.Outcome{lib.Validate(c17GoodProfile, d), lib.ValidateCompiled(good.Q, d), lib.ValidateDefault(c17GoodProfile, d, nil), lib.ValidateCompiledDefault(good.Q, d, nil)} {
				ctx.Count("nodeless_documents_judged", 1)
				rep, perr := lib.ParseReport(o.Report)
				if o.Failed() || perr != nil || !rep.Conforms || len(rep.Results) > 0 {
					ctx.Violation("nodeless-not-conforming", fmt.Sprintf("valid JSON-LD document without nodes %q: %s", clip(d, 80), o.ErrString()), map[string]any{"profile": c17GoodProfile, "data": d})
				}
			}
		}
	}
	ctx.FinishShard()
}
