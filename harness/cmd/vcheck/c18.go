package main

import (
	"bytes"
	"fmt"
	"io"
	"math/rand"
	"os"
	"os/exec"
	"path/filepath"
	"regexp"
	"strings"
	"syscall"
	"time"

	"verif/lib"
)

func init() { checks["C18"] = c18 }

var dateRe = regexp.MustCompile(`"dateCreated": "([^"]*)"`)

// maskDate replaces the one wall-clock field; ok is false if a value does not parse as RFC 3339.
func maskDate(s string) (string, bool) {
	ok := true
	out := dateRe.ReplaceAllStringFunc(s, func(m string) string {
		v := dateRe.FindStringSubmatch(m)[1]
		if _, err := time.Parse(time.RFC3339, v); err != nil {
			ok = false
		}
		return `"dateCreated": "<masked>"`
	})
	return out, ok
}

type cliResult struct {
	stdout, stderr string
	exit           int
}

func runCLI(bin string, args ...string) cliResult {
	cmd := exec.Command(bin, args...)
	var so, se bytes.Buffer
	cmd.Stdout, cmd.Stderr = &so, &se
	err := cmd.Run()
	code := 0
	if err != nil {
		code = -1
		if ee, ok := err.(*exec.ExitError); ok {
			code = ee.ExitCode()
		}
	}
	return cliResult{so.String(), se.String(), code}
}

// c18BulkData: the nodes of g followed by filler nodes (class ex.Filler, 1 KiB literals) up to at least size bytes.
func c18BulkData(g *lib.Graph, size int) string {
	h := lib.NewGraph()
	for _, n := range g.Nodes {
		nn := h.AddNode(n.ID, n.Types...)
		nn.Props = n.Props
	}
	lit := strings.Repeat("0123456789abcdef", 64)
	for k := 0; k*1100 < size; k++ {
		f := h.AddNode(fmt.Sprintf("%sfiller/%d", lib.EX, k), lib.EX+"Filler")
		f.Add(lib.EX+"blob", lib.StrV(lit))
	}
	d := h.CanonicalJSONLD()
	if len(d) < size {
		panic("c18BulkData: too small")
	}
	return d
}

func c18Pairs(seed int64, n int) [][2]string {
	var out [][2]string
	// percent signs, quotes and placeholders in everything the CLI prints
	pct := &lib.ProfileDoc{Name: "100% profile %s %d", Prefixes: [][2]string{{"ex", lib.EX}}, Violation: []string{"v%1"}, Warning: []string{"w"},
		Validations: []lib.Validation{
			{Name: "v%1", TargetClass: "ex.T", Message: "100% of {{ex.name}} must %v have a %d name %%", Body: lib.PC1("ex.missing", lib.CScalar("minCount", lib.Int(1)))},
			{Name: "w", TargetClass: "ex.T", Message: "tags of {{ ex.name }}", Body: lib.PC1("ex.tags", lib.CList("in", "50%", "%s"))}}}
	g := lib.NewGraph()
	nd := g.AddNode(lib.EX+"my%20api/node%2F1", lib.EX+"T")
	nd.Add(lib.EX+"name", lib.StrV("name with 10% off"))
	nd.Add(lib.EX+"tags", lib.StrV("75%"))
	out = append(out, [2]string{pct.Text(), g.CanonicalJSONLD()})
	out = append(out, [2]string{pct.Text(), `[{"@id":"http://ex.org/ok","@type":["http://ex.org/U"]}]`}) // conforming: short report
	// text outside ASCII (2-, 3- and 4-byte characters) in everything the CLI prints: bytes and characters differ in number
	uni := &lib.ProfileDoc{Name: "Prüfprofil 名前 😀 ελληνικά", Prefixes: [][2]string{{"ex", lib.EX}}, Violation: []string{"vérification"}, Warning: []string{"w"},
		Validations: []lib.Validation{
			{Name: "vérification", TargetClass: "ex.T", Message: "«{{ex.name}}» doit avoir un nom — 必須 😀", Body: lib.PC1("ex.missing", lib.CScalar("minCount", lib.Int(1)))},
			{Name: "w", TargetClass: "ex.T", Message: "étiquettes de {{ex.name}}", Body: lib.PC1("ex.tags", lib.CList("in", "ωμέγα", "日本"))}}}
	gu := lib.NewGraph()
	for k, nm := range []string{"Zoë", "名前", "😀😀😀", "plain"} {
		nu := gu.AddNode(fmt.Sprintf("%snœud/%d", lib.EX, k), lib.EX+"T")
		nu.Add(lib.EX+"name", lib.StrV(nm))
		nu.Add(lib.EX+"tags", lib.StrV("ярлык"))
	}
	out = append(out, [2]string{uni.Text(), gu.CanonicalJSONLD()})
	for _, p := range c05Profiles() {
		for k := 0; k < 2; k++ {
			gg := c05Graph(lib.CaseRand(seed, 18, len(out)))
			d := gg.CanonicalJSONLD()
			if k == 1 {
				d = lib.DecorateWithSourceMaps(gg, lib.CaseRand(seed, 18, 500+len(out))).Text
			}
			out = append(out, [2]string{p.Text(), d})
		}
	}
	out = append(out, [2]string{c05Profiles()[1].Text(), c09HugeDoc(400)}) // ~300 KiB report
	// input FILES of 64 KiB to 4.5 MiB (around the usual buffer sizes) with a small report: filler nodes of another class
	// after the one target node; and a profile file above 1 MiB (comment lines)
	for _, size := range []int{1 << 16, 1<<20 - 1, 1<<20 + 1, 3 << 19, 9 << 19} {
		out = append(out, [2]string{pct.Text(), c18BulkData(g, size)})
	}
	out = append(out, [2]string{pct.Text() + strings.Repeat("# "+strings.Repeat("filler ", 18)+"\n", 9000), g.CanonicalJSONLD()})
	wp, wg := c10WideProfile()
	out = append(out, [2]string{wp.Text(), wg.CanonicalJSONLD()})
	out = append(out, [2]string{c14Profile().Text(), lib.SourceMapDoc()}, [2]string{c17GoodProfile, "{}"}, [2]string{c17GoodProfile, c11GoodData})
	for len(out) < n {
		r := lib.CaseRand(seed, 18, 900+len(out))
		p, gg := c06Profile(r, len(out))
		out = append(out, [2]string{p.Text(), gg.CanonicalJSONLD()})
	}
	return out
}

// C18: the CLI emits exactly the library's output, to stdout or to the file, whatever the file held before;
// failures give a non-zero exit status and no report on stdout.
func c18(tier string) {
	ctx := lib.NewCtx("C18", tier)
	ctx.Rule = "(profile, data) pairs (reports from 1 KiB to >300 KiB; data files from 64 KiB to 4.5 MiB around the 1 MiB mark and a 1.2 MiB profile file; percent signs, quotes, placeholders and text outside ASCII (2- to 4-byte characters) in names, messages, values and node ids; source maps; conforming and non-conforming) x sub-commands validate (stdout and file), generate, normalize, compile x invocation styles (relative paths from other working directories, file names with blanks / non-ASCII letters, empty and unusual environments, relative output paths, data / profile read from a named pipe or from standard input) x prior states of the output path (absent, empty, shorter, longer garbage, a previous longer report, equal length, read-only, directory, dangling symlink, symlink to a file, missing parent directory, the output path naming the data file / a symlink to it / a hard link to the profile) and sequences long -> short -> long into one file; the library's answer is computed by a fresh harness process (generated names are numbered per process), dateCreated is required to parse as RFC 3339 and masked on both sides, nothing else is masked; failure classes: missing/extra arguments, unknown command, unreadable paths, malformed profile, malformed data, injected ENOSPC on the output file; " +
		"non-trivial & distinct = (pair, sub-command, prior state) whose expected output is a non-empty report / policy / normalised input"
	ctx.Assumptions = []string{"stdout carries the output followed by exactly one newline (Println); the file holds exactly the report", "the check runs as root: a read-only output file is writable, it must then hold exactly the report"}
	n := ctx.N(32, 120)
	ctx.NoDebugWorkers = true
	if !ctx.IsShard() {
		ctx.RunShards()
		ctx.MinDistinct = 60
		ctx.Finish()
	}
	acv, self := os.Getenv("VERIF_ACV"), os.Getenv("VERIF_SELF")
	if acv == "" || self == "" {
		ctx.Inconclusive("acv / harness binaries not available (run through ./check)")
		ctx.FinishShard()
	}
	tmp := lib.TempDir("c18")
	defer os.RemoveAll(tmp)
	pairs := c18Pairs(ctx.Seed, n)
	states := []string{"absent", "empty", "shorter", "longer-garbage", "longer-report", "equal-length", "read-only", "symlink-to-file", "dangling-symlink",
		"is-the-data-file", "is-a-symlink-to-the-data-file", "is-a-hard-link-to-the-profile-file"}
	ctx.ForEach(len(pairs), func(i int) {
		r := lib.CaseRand(ctx.Seed, 18, i)
		dir := filepath.Join(tmp, fmt.Sprintf("case%d", i))
		_ = os.MkdirAll(dir, 0o755)
		pf, df := filepath.Join(dir, "profile.yaml"), filepath.Join(dir, "data.jsonld")
		_ = os.WriteFile(pf, []byte(pairs[i][0]), 0o644)
		_ = os.WriteFile(df, []byte(pairs[i][1]), 0o644)
		base := map[string]any{"profile": pairs[i][0], "data": pairs[i][1]}
		lib1 := runCLI(self, "child", "report", pf, df)
		if lib1.exit != 0 || strings.HasPrefix(lib1.stdout, "ERROR: ") {
			ctx.Inconclusive("library reference failed for pair " + fmt.Sprint(i) + ": " + clip(lib1.stdout, 200))
			return
		}
		want, _ := maskDate(lib1.stdout)
		// --- validate to stdout
		res := runCLI(acv, "validate", pf, df)
		got, dateOK := maskDate(res.stdout)
		ctx.Eval(fmt.Sprintf("%d/validate/stdout", i))
		ctx.Count("invocations", 1)
		if res.exit != 0 || got != want+"\n" || !dateOK {
			base["stdout"], base["library"] = clip(res.stdout, 3000), clip(lib1.stdout, 3000)
			ctx.Violation("stdout-differs", fmt.Sprintf("pair %d: `acv validate` exit=%d, stdout (%d bytes) differs from the library's report (%d bytes) + newline%s", i, res.exit, len(res.stdout), len(lib1.stdout), firstDiff(got, want+"\n")), base)
		}
		// --- the same call written differently: relative paths from another working directory, file names with blanks
		// and non-ASCII letters, a stripped or unusual environment, a closed standard input
		{
			odd := filepath.Join(dir, "dir with blank é")
			_ = os.MkdirAll(odd, 0o755)
			opf, odf := filepath.Join(odd, "my profile ü.yaml"), filepath.Join(odd, "data file (1).jsonld")
			_ = os.WriteFile(opf, []byte(pairs[i][0]), 0o644)
			_ = os.WriteFile(odf, []byte(pairs[i][1]), 0o644)
			type style struct {
				name string
				cwd  string
				args []string
				env  []string
				out  string // relative or absolute output path ("" = stdout)
			}
			styles := []style{
				{"relative-paths", dir, []string{"profile.yaml", "./data.jsonld"}, nil, ""},
				{"relative-paths-with-dotdot", odd, []string{"../profile.yaml", "../dir with blank é/../data.jsonld"}, nil, ""},
				{"odd-file-names", dir, []string{opf, odf}, nil, ""},
				{"empty-environment", "/", []string{pf, df}, []string{}, ""},
				{"unusual-environment", dir, []string{pf, df}, []string{"HOME=/nonexistent", "TMPDIR=/nonexistent", "LANG=C", "NO_COLOR=1", "GOMAXPROCS=1", "GODEBUG=", "PWD=/somewhere/else", "PATH="}, ""},
				{"relative-output-path", odd, []string{"../profile.yaml", "../data.jsonld"}, nil, "out rel.jsonld"},
				{"relative-output-path-dotdot", odd, []string{opf, odf}, []string{"HOME=/nonexistent"}, "../out-rel2.jsonld"},
			}
			// inputs that are not regular files: a named pipe, and standard input fed by a pipe
			fifo := filepath.Join(dir, "data.fifo")
			_ = syscall.Mkfifo(fifo, 0o644)
			styles = append(styles, style{"data-from-a-named-pipe", dir, []string{pf, fifo}, nil, ""},
				style{"data-from-/dev/stdin", dir, []string{pf, "/dev/stdin"}, nil, ""},
				style{"profile-from-/dev/stdin", dir, []string{"/dev/stdin", df}, nil, ""})
			for si, st := range styles {
				if ctx.Quick() && (si+i)%2 != 0 {
					continue
				}
				args := append([]string{"validate"}, st.args...)
				if st.out != "" {
					args = append(args, st.out)
				}
				cmd := exec.Command(acv, args...)
				cmd.Dir = st.cwd
				if st.env != nil {
					cmd.Env = st.env
				}
				var so, se bytes.Buffer
				cmd.Stdout, cmd.Stderr = &so, &se
				switch st.name {
				case "data-from-/dev/stdin":
					cmd.Stdin = io.MultiReader(strings.NewReader(pairs[i][1])) // not an *os.File: the child gets a pipe
				case "profile-from-/dev/stdin":
					cmd.Stdin = io.MultiReader(strings.NewReader(pairs[i][0]))
				case "data-from-a-named-pipe":
					go func(text string) {
						if f, err := os.OpenFile(fifo, os.O_WRONLY, 0); err == nil {
							_, _ = f.WriteString(text)
							_ = f.Close()
						}
					}(pairs[i][1])
				}
				err := cmd.Run()
				ctx.Eval(fmt.Sprintf("%d/validate/style/%s", i, st.name))
				ctx.Count("invocations", 1)
				ctx.Count("invocation_style:"+st.name, 1)
				emitted := so.String()
				if st.out != "" {
					b, _ := os.ReadFile(filepath.Join(st.cwd, st.out))
					emitted = string(b) + "\n"
					if strings.TrimSpace(so.String()) != "" {
						emitted = "STDOUT NOT EMPTY: " + so.String()
					}
				}
				gotS, dOK := maskDate(emitted)
				if err != nil || gotS != want+"\n" || !dOK {
					base["style"], base["stdout"], base["stderr"], base["library"] = st.name, clip(so.String(), 2000), clip(se.String(), 1000), clip(lib1.stdout, 2000)
					ctx.Violation("invocation-style-differs", fmt.Sprintf("pair %d, `acv validate` called in style %s: err=%v, what it emitted (%d bytes) differs from the library's report (%d bytes)%s", i, st.name, err, len(emitted), len(lib1.stdout), firstDiff(gotS, want+"\n")), base)
				}
			}
		}
		// --- validate to a file, for every prior state
		other := pairs[(i+1)%len(pairs)]
		for si, st := range states {
			if ctx.Quick() && (si+i)%3 != 0 && st != "longer-report" && st != "longer-garbage" && !(strings.HasPrefix(st, "is-") && i%4 == si%4) {
				continue
			}
			out := filepath.Join(dir, "out-"+st+".jsonld")
			target := out
			switch st {
			case "empty":
				_ = os.WriteFile(out, nil, 0o644)
			case "shorter":
				_ = os.WriteFile(out, []byte("short"), 0o644)
			case "longer-garbage":
				b := make([]byte, len(lib1.stdout)+1+r.Intn(20000))
				for k := range b {
					b[k] = byte('a' + r.Intn(26))
				}
				_ = os.WriteFile(out, b, 0o644)
			case "longer-report":
				_ = os.WriteFile(out, []byte(lib1.stdout+lib1.stdout[len(lib1.stdout)/2:]), 0o644)
			case "equal-length":
				_ = os.WriteFile(out, bytes.Repeat([]byte("x"), len(lib1.stdout)), 0o644)
			case "read-only":
				_ = os.WriteFile(out, []byte(strings.Repeat("old content ", 3000)), 0o444)
			case "symlink-to-file":
				target = filepath.Join(dir, "real-target.jsonld")
				_ = os.WriteFile(target, []byte(strings.Repeat("previous ", 5000)), 0o644)
				_ = os.Symlink(target, out)
			case "dangling-symlink":
				target = filepath.Join(dir, "not-yet-there.jsonld")
				_ = os.Remove(target)
				_ = os.Symlink(target, out)
			}
			spf, sdf := pf, df
			switch st {
			// the output path names one of the inputs: the inputs are read first, the report replaces the file
			case "is-the-data-file":
				sdf = filepath.Join(dir, "data-copy-1.jsonld")
				_ = os.WriteFile(sdf, []byte(pairs[i][1]), 0o644)
				out = sdf
			case "is-a-symlink-to-the-data-file":
				sdf = filepath.Join(dir, "data-copy-2.jsonld")
				_ = os.WriteFile(sdf, []byte(pairs[i][1]), 0o644)
				_ = os.Symlink(sdf, out)
			case "is-a-hard-link-to-the-profile-file":
				spf = filepath.Join(dir, "profile-copy.yaml")
				_ = os.WriteFile(spf, []byte(pairs[i][0]), 0o644)
				_ = os.Link(spf, out)
			}
			res := runCLI(acv, "validate", spf, sdf, out)
			b, err := os.ReadFile(out)
			gotF, dOK := maskDate(string(b))
			ctx.Eval(fmt.Sprintf("%d/validate/file/%s", i, st))
			ctx.Count("invocations", 1)
			ctx.Count("prior_state:"+st, 1)
			if res.exit != 0 || err != nil || gotF != want || !dOK || strings.TrimSpace(res.stdout) != "" {
				base["prior_state"] = st
				base["file_content"], base["library"] = clip(string(b), 3000), clip(lib1.stdout, 3000)
				ctx.Violation("file-differs", fmt.Sprintf("pair %d, output file previously %s: exit=%d, the file holds %d bytes, the library's report has %d%s", i, st, res.exit, len(b), len(lib1.stdout), firstDiff(gotF, want)), base)
			}
		}
		// --- sequence long -> short -> long into the same file
		if i%3 == 0 {
			seqOut := filepath.Join(dir, "sequence.jsonld")
			opf, odf := filepath.Join(dir, "other-profile.yaml"), filepath.Join(dir, "other-data.jsonld")
			_ = os.WriteFile(opf, []byte(other[0]), 0o644)
			_ = os.WriteFile(odf, []byte(other[1]), 0o644)
			lib2 := runCLI(self, "child", "report", opf, odf)
			want2, _ := maskDate(lib2.stdout)
			for step, which := range []int{0, 1, 0, 1} {
				var rr cliResult
				w := want
				if which == 0 {
					rr = runCLI(acv, "validate", pf, df, seqOut)
				} else {
					rr = runCLI(acv, "validate", opf, odf, seqOut)
					w = want2
				}
				if strings.HasPrefix(lib2.stdout, "ERROR: ") && which == 1 {
					continue
				}
				b, _ := os.ReadFile(seqOut)
				gotS, _ := maskDate(string(b))
				ctx.Eval(fmt.Sprintf("%d/validate/sequence/%d", i, step))
				ctx.Count("invocations", 1)
				if rr.exit != 0 || gotS != w {
					ctx.Violation("file-differs", fmt.Sprintf("pair %d: step %d of rewriting one output file with alternating reports: the file holds %d bytes, the report has %d%s", i, step, len(b), len(w), firstDiff(gotS, w)), base)
					break
				}
			}
		}
		// --- generate / normalize: exactly the library's generated policy / normalised input
		for _, sub := range []string{"generate", "normalize"} {
			arg := pf
			if sub == "normalize" {
				arg = df
			}
			libOut := runCLI(self, "child", sub, arg)
			cli := runCLI(acv, sub, arg)
			ctx.Eval(fmt.Sprintf("%d/%s", i, sub))
			ctx.Count("invocations", 1)
			if strings.HasPrefix(libOut.stdout, "ERROR: ") {
				if cli.exit == 0 {
					ctx.Violation("failure-with-exit-0", fmt.Sprintf("pair %d: the library fails to %s but `acv %s` exits 0", i, sub, sub), base)
				}
				continue
			}
			if cli.exit != 0 || cli.stdout != libOut.stdout+"\n" {
				base["stdout"], base["library"] = clip(cli.stdout, 3000), clip(libOut.stdout, 3000)
				ctx.Violation("stdout-differs", fmt.Sprintf("pair %d: `acv %s` exit=%d, stdout (%d bytes) differs from the library's output (%d bytes) + newline%s", i, sub, cli.exit, len(cli.stdout), len(libOut.stdout), firstDiff(cli.stdout, libOut.stdout+"\n")), base)
			}
		}
		if i < 2 {
			ctx.Sample(map[string]any{"pair": i, "report_bytes": len(lib1.stdout), "profile_head": head(pairs[i][0], 12)})
		}
	})
	// --- failure classes (first worker only)
	if ctx.First() {
		dir := filepath.Join(tmp, "failures")
		_ = os.MkdirAll(dir, 0o755)
		pf, df := filepath.Join(dir, "p.yaml"), filepath.Join(dir, "d.jsonld")
		_ = os.WriteFile(pf, []byte(pairs[0][0]), 0o644)
		_ = os.WriteFile(df, []byte(pairs[0][1]), 0o644)
		badP, badD, trunc := filepath.Join(dir, "bad.yaml"), filepath.Join(dir, "bad.jsonld"), filepath.Join(dir, "trunc.jsonld")
		_ = os.WriteFile(badP, []byte("profile: x\nvalidations: [\n"), 0o644)
		_ = os.WriteFile(badD, []byte("openapi: 3.0.0\n"), 0o644)
		_ = os.WriteFile(trunc, []byte(pairs[0][1][:len(pairs[0][1])/2]), 0o644)
		_ = os.MkdirAll(filepath.Join(dir, "a-directory"), 0o755)
		fails := [][]string{
			{}, {"validate"}, {"validate", pf}, {"validate", pf, df, "x", "y"}, {"frobnicate"}, {"generate"}, {"normalize"}, {"compile"}, {"generate", pf, "extra"},
			{"validate", filepath.Join(dir, "missing.yaml"), df}, {"validate", pf, filepath.Join(dir, "missing.jsonld")}, {"generate", filepath.Join(dir, "missing.yaml")}, {"normalize", filepath.Join(dir, "missing.jsonld")},
			{"validate", badP, df}, {"generate", badP}, {"compile", badP}, {"validate", pf, badD}, {"validate", pf, trunc}, {"normalize", badD}, {"normalize", trunc},
			{"validate", pf, df, filepath.Join(dir, "a-directory")}, {"validate", pf, df, filepath.Join(dir, "no-such-dir", "out.jsonld")}, {"validate", pf, badD, filepath.Join(dir, "should-not-hold-a-report.jsonld")},
		}
		for _, args := range fails {
			res := runCLI(acv, args...)
			ctx.Eval("failure/" + strings.Join(args, " "))
			ctx.Count("failure_invocations", 1)
			if res.exit == 0 || strings.Contains(res.stdout, "conforms") {
				ctx.Violation("failure-with-exit-0", fmt.Sprintf("`acv %s`: exit=%d, stdout %q", strings.Join(args, " "), res.exit, clip(res.stdout, 200)), map[string]any{"args": args, "stdout": clip(res.stdout, 2000), "stderr": clip(res.stderr, 2000)})
			}
		}
		// write failure on the output file: ENOSPC injected by strace on writes to that path only
		out := filepath.Join(dir, "enospc.jsonld")
		cmd := exec.Command("strace", "-f", "-o", filepath.Join(dir, "strace.log"), "-P", out, "-e", "trace=write", "-e", "inject=write:error=ENOSPC", acv, "validate", pf, df, out)
		var so bytes.Buffer
		cmd.Stdout = &so
		err := cmd.Run()
		slog, _ := os.ReadFile(filepath.Join(dir, "strace.log"))
		if strings.Contains(string(slog), "ENOSPC") {
			ctx.Count("injected_write_faults", 1)
			ctx.Eval("failure/enospc")
			if err == nil || strings.Contains(so.String(), "conforms") {
				ctx.Violation("failure-with-exit-0", "`acv validate P D OUT` with ENOSPC on OUT exited 0", map[string]any{"strace": clip(string(slog), 2000)})
			}
		} else {
			ctx.Count("write_fault_injection_not_effective(observation)", 1)
		}
	}
	ctx.FinishShard()
}

func firstDiff(a, b string) string {
	n := len(a)
	if len(b) < n {
		n = len(b)
	}
	for i := 0; i < n; i++ {
		if a[i] != b[i] {
			lo := i - 30
			if lo < 0 {
				lo = 0
			}
			return fmt.Sprintf("; first difference at byte %d: got %q, expected %q", i, clip(a[lo:], 70), clip(b[lo:], 70))
		}
	}
	if len(a) != len(b) {
		return fmt.Sprintf("; one is a prefix of the other (lengths %d vs %d)", len(a), len(b))
	}
	return ""
}

var _ = rand.Int
