package main

import (
	"encoding/json"
	"fmt"
	"os"

	"verif/lib"
)

// replay re-executes the (profile, data) pair stored in a replay file against the current tree and prints
// what the real code answers next to what the oracle expected.
func replay(id, path string) {
	b, err := os.ReadFile(path)
	if err != nil {
		fmt.Fprintln(os.Stderr, err)
		os.Exit(2)
	}
	var m map[string]any
	if err := json.Unmarshal(b, &m); err != nil {
		fmt.Fprintln(os.Stderr, err)
		os.Exit(2)
	}
	fmt.Printf("replay of %s (%v)\nwhat: %v\n", path, m["property"], m["what"])
	profile, _ := m["profile"].(string)
	data, _ := m["data"].(string)
	if profile == "" {
		fmt.Println("(replay file carries no profile/data pair; see its fields)")
		os.Exit(0)
	}
	o := lib.Validate(profile, data)
	fmt.Printf("error: %q\n", o.ErrString())
	if rep, err := lib.ParseReport(o.Report); err == nil {
		fmt.Printf("conforms=%v results=%d\n", rep.Conforms, len(rep.Results))
		fmt.Printf("profileName=%q dateCreated=%v\n", rep.ProfileName, rep.DateCreated != nil)
		for i, res := range rep.Results {
			if i >= 30 {
				fmt.Printf("  ... %d more results\n", len(rep.Results)-30)
				break
			}
			fmt.Printf("  %-9s %q focus=%s message=%q\n", res.Severity, res.Name, res.Focus, res.Message)
		}
		if d := lib.CheckWellFormed(rep, lib.WFInput{}); len(d) > 0 {
			fmt.Printf("well-formedness defects: %v\n", d)
		}
	} else if o.Report != "" {
		fmt.Println("unparsable report:", err)
	}
	if exp, ok := m["expected"]; ok {
		e, _ := json.MarshalIndent(exp, "", " ")
		fmt.Printf("expected: %s\n", e)
	}
}
