package main

import (
	"encoding/json"
	"fmt"
	"os"

	"verif/lib"
)

// replay re-executes the (profile, data) pair stored in a replay file against the current tree and prints
// what the real code answers next to what the oracle expected.
func replay(id, path string) {
	b, err := os.ReadFile(path)
	if err != nil {
		fmt.Fprintln(os.Stderr, err)
		os.Exit(2)
	}
	var m map[string]any
	if err := json.Unmarshal(b, &m); err != nil {
		fmt.Fprintln(os.Stderr, err)
		os.Exit(2)
	}
	fmt.Printf("replay of %s (%v)\nwhat: %v\n", path, m["property"], m["what"])
	profile, _ := m["profile"].(string)
	data, _ := m["data"].(string)
	if profile == "" {
		fmt.Println("(replay file carries no profile/data pair; see its fields)")
		os.Exit(0)
	}
	o := lib.Validate(profile, data)
	fmt.Printf("error: %q\n", o.ErrString())
	if rep, err := lib.ParseReport(o.Report); err == nil {
		fmt.Printf("conforms=%v results=%d\n", rep.Conforms, len(rep.Results))
		for name, focus := range rep.FocusByName() {
			fmt.Printf("  %s -> %v\n", name, focus)
		}
	} else if o.Report != "" {
		fmt.Println("unparsable report:", err)
	}
	if exp, ok := m["expected"]; ok {
		e, _ := json.MarshalIndent(exp, "", " ")
		fmt.Printf("expected: %s\n", e)
	}
}
