package main

import (
	"fmt"
	"math/rand"
	"regexp"
	"sort"
	"strings"

	"verif/lib"

	"gopkg.in/yaml.v3"
)

func init() { checks["C13"] = c13 }

var c13Hostile = []string{`"`, `'`, "`", `\`, `\\`, `\"`, `\n`, `\t`, `\s`, `A`, `%`, `%%`, `%v`, `%d`, `%s`, `%!`, `%!v(MISSING)`, `100%`, `{`, `}`, `{{`, `}}`, `{{notaplaceholder}}`, `{{ }}`, `{ {x} }`,
	`$`, `$message`, `$result`, `$node`, `$traceNode`, `#`, `# comment`, `]`, `[`, `)`, `(`, `,`, `;`, `:`, `: `, ` - `, `|`, `>`, `&`, `*`, `!`, `?`, `@`, `=`, `:=`, `==`, `é`, `☃`, `漢字`, `😀`, "‏", "é", " ", `<`, `>`, `&amp;`, `</script>`,
	`") := x`, `"]`, `"})`, `true`, `null`, `0`, `-1`, `1e9`, `~`, `not`, `default`, `package`, `import`, `some`, `every`, `in`, `with`, `as`, `else`, `report`, `violation["x"]`, `input`, `data`, `trace(`, `error(`,
	// text that looks like an escape sequence of JSON / Go / YAML
	`\u003c`, `\u003e`, `\u0026`, `\u0000`, `\x41`, `\U0001F600`, `\a`, `\0`, `\/`,
	// control and other non-printable characters (an ANSI colour sequence in a message, a bell in a name ...): escapes differ between Go, JSON, YAML and Rego
	"\a", "\v", "\f", "\b", "\x1b[31m", "\x1b[0m", "\x7f", "\x01", "\x1f", "\U000E0001", "\ufeff", "\u2028", "\u2029", "\u0085", "\u00a0", "\U0001F3F4\U000E0067"}

var c13LanguageKeys = []string{"violation", "warning", "info", "validations", "prefixes", "profile", "description", "targetClass", "message", "propertyConstraints", "and", "or", "not", "if", "then", "else", "rego", "regoModule", "rego_extensions", "code",
	"nested", "atLeast", "atMost", "count", "validation", "minCount", "maxCount", "exactCount", "pattern", "in", "containsAll", "containsSome", "datatype", "minLength", "maxLength", "minInclusive", "maxExclusive", "lessThanProperty", "equalsToProperty", "ex", "ex.req", "ex.T"}

var c13Benign = []string{"The value", "must be", "present", "api", "Endpoint", "check", "name", "of", "x", "rule 7", "Q"}

func hostileString(r *rand.Rand, allowNewline bool, min int) string {
	if r.Intn(12) == 0 {
		return c13LanguageKeys[r.Intn(len(c13LanguageKeys))]
	}
	var b strings.Builder
	n := min + r.Intn(5)
	for i := 0; i < n; i++ {
		switch r.Intn(3) {
		case 0:
			b.WriteString(c13Benign[r.Intn(len(c13Benign))])
		default:
			b.WriteString(c13Hostile[r.Intn(len(c13Hostile))])
		}
		if r.Intn(2) == 0 {
			b.WriteString(" ")
		}
	}
	s := b.String()
	if allowNewline && r.Intn(4) == 0 {
		s += "\nsecond line"
	}
	if allowNewline && r.Intn(6) == 0 {
		s += "\ttabbed"
	}
	if r.Intn(40) == 0 {
		s += strings.Repeat("long ☃ % \" \\ ", 320)
	}
	return s
}

var c13Placeholder = regexp.MustCompile(`\{\{\s*([\w-]+)\.([\w-]+)\s*\}\}`)

type msgPart struct {
	lit   string
	ph    string // property local name when this part is a placeholder
	inner string // spelling inside the braces
}

// C13: names and messages reach the report intact; special characters never change the profile's meaning.
func c13(tier string) {
	ctx := lib.NewCtx("C13", tier)
	ctx.Rule = "profiles whose profile name, validation name, message (0-4 {{prefix.property}} placeholders with optional inner whitespace, values string/integer/boolean/absent) and in/containsAll/containsSome list values are drawn from a hostile alphabet (quotes, backslashes, % verbs, braces, $-variables of the generator, Rego/YAML syntax, non-ASCII, combining and bidi marks, C0 / C1 control characters, DEL, BOM, line / paragraph separators, tag characters above U+FFFF, 4 KiB strings, strings equal to keys of the profile language), each position alone and together; expected report fields come from a reference renderer, expected focus nodes from the same profile with bland text; " +
		"non-trivial & distinct = distinct (profile name, validation name, message, list value) tuple containing at least one hostile token"
	ctx.Assumptions = []string{"any Unicode scalar value except NUL (control characters included); newline and tab only inside messages; names non-empty", "placeholder values are single string (also empty) / integer (also 0, negative) / boolean (true, false) values or absent; property names may hold a hyphen", "the profile author's strings are emitted as YAML scalars by the harness's printer and verified by re-parsing with yaml.v3 before use"}
	n := ctx.N(3000, 40000)
	if !ctx.IsShard() {
		ctx.RunShards()
		ctx.MinDistinct = 200
		ctx.Finish()
	}
	// data: t_fail lacks ex.req (reported), t_ok has it; placeholder properties on both
	mkData := func(listVal string) (string, map[string]bool) {
		g := lib.NewGraph()
		for _, id := range []string{"t_fail", "t_ok"} {
			nd := g.AddNode(lib.EX+id, lib.EX+"T")
			nd.Add(lib.EX+"k1", lib.StrV("val1"))
			nd.Add(lib.EX+"k2", lib.IntV(42))
			nd.Add(lib.EX+"k3", lib.BoolV(true))
			nd.Add(lib.EX+"k4", lib.BoolV(false))
			nd.Add(lib.EX+"k5", lib.IntV(0))
			nd.Add(lib.EX+"k6", lib.StrV(""))
			nd.Add(lib.EX+"k-7", lib.IntV(-7))
			if id == "t_ok" {
				nd.Add(lib.EX+"req", lib.StrV("here"))
			}
		}
		a := g.AddNode(lib.EX+"l_same", lib.EX+"L")
		a.Add(lib.EX+"tag", lib.StrV(listVal))
		b := g.AddNode(lib.EX+"l_other", lib.EX+"L")
		b.Add(lib.EX+"tag", lib.StrV("something else"))
		ids := map[string]bool{}
		for _, nd := range g.Nodes {
			ids[nd.ID] = true
		}
		return g.CanonicalJSONLD(), ids
	}
	values := map[string]string{"k1": "val1", "k2": "42", "k3": "true", "k4": "false", "k5": "0", "k6": "", "k-7": "-7", "zz": "null"}
	ctx.ForEach(n, func(i int) {
		r := lib.CaseRand(ctx.Seed, 13, i)
		mask := r.Intn(16)
		if mask == 0 {
			mask = 15
		}
		pname, vname, listVal := "bland profile", "bland-validation", "plain value"
		if mask&1 != 0 {
			pname = hostileString(r, false, 1)
		}
		if mask&2 != 0 {
			vname = hostileString(r, false, 1)
		}
		if mask&8 != 0 {
			listVal = hostileString(r, false, 1)
		}
		if vname == "lv" || vname == "lvall" || vname == "lvsome" {
			vname += "x"
		}
		// message
		var parts []msgPart
		nPh := r.Intn(5)
		nLit := 1 + r.Intn(3)
		for k := 0; k < nLit+nPh; k++ {
			if k%2 == 1 && nPh > 0 {
				prop := pick(r, "k1", "k2", "k3", "zz", "k1", "k4", "k5", "k6", "k-7")
				inner := pick(r, "ex."+prop, " ex."+prop+" ", "  ex."+prop, "ex."+prop+"\t")
				if r.Intn(6) == 0 {
					// a placeholder over a vocabulary the focus node has nothing of: undeclared prefix, underscore, built-in prefix
					inner = pick(r, "imdb.director", "my_vocab.x", "core.name", "a-b.c-d", "ex.k_1")
				}
				parts = append(parts, msgPart{ph: prop, inner: inner})
				nPh--
				continue
			}
			if mask&4 != 0 {
				parts = append(parts, msgPart{lit: hostileString(r, true, 1)})
			} else {
				parts = append(parts, msgPart{lit: c13Benign[r.Intn(len(c13Benign))] + " "})
			}
		}
		var msg, expMsg strings.Builder
		for _, p := range parts {
			if p.ph != "" {
				msg.WriteString("{{" + p.inner + "}}")
				expMsg.WriteString(values[p.ph])
			} else {
				msg.WriteString(p.lit)
				expMsg.WriteString(strings.ReplaceAll(p.lit, `"`, `'`))
			}
		}
		message := msg.String()
		if strings.TrimSpace(message) == "" {
			message = "m" + message
		}
		if mask&4 == 0 && r.Intn(3) == 0 {
			// the same message text under different prefix bindings, in different profiles of one process
			message = "value {{ex.k1}} and {{ ex.k2 }} of {{ex.zz}} / {{ex.k3}}"
		}
		// reference renderer over the message AS WRITTEN: every documented placeholder {{ prefix.property }} is
		// replaced by the focus node's value (null when absent), then double quotes are shown as single quotes
		skip := false
		rendered := c13Placeholder.ReplaceAllStringFunc(message, func(m string) string {
			sub := c13Placeholder.FindStringSubmatch(m)
			if sub[1] != "ex" {
				return "null" // the focus node has no value for a property of an undeclared / other vocabulary
			}
			if v, ok := values[sub[2]]; ok {
				return v
			}
			return "null"
		})
		if skip {
			ctx.Count("accidental_placeholder_skipped", 1)
			return
		}
		expMsg.Reset()
		expMsg.WriteString(strings.ReplaceAll(rendered, `"`, `'`))
		req := lib.PC1("ex.req", lib.CScalar("minCount", lib.Int(1)))
		mk := func(pn, vn, m, lv string) *lib.ProfileDoc {
			return &lib.ProfileDoc{Name: pn, Prefixes: [][2]string{{"ex", lib.EX}}, Violation: []string{vn, "lv"}, Warning: []string{"lvall"}, Info: []string{"lvsome"},
				Validations: []lib.Validation{
					{Name: vn, TargetClass: "ex.T", Message: m, Body: req},
					{Name: "lv", TargetClass: "ex.L", Message: "list", Body: lib.PC1("ex.tag", lib.CList("in", lv, "unrelated"))},
					{Name: "lvall", TargetClass: "ex.L", Message: "list all", Body: lib.PC1("ex.tag", lib.CList("containsAll", lv))},
					{Name: "lvsome", TargetClass: "ex.L", Message: "list some", Body: lib.PC1("ex.tag", lib.CList("containsSome", lv, "unrelated"))},
				}}
		}
		prof := mk(pname, vname, message, listVal)
		ptext := prof.Text()
		// harness self-check: the YAML we printed says what we meant
		var back struct {
			Profile     string
			Validations map[string]struct {
				Message             string
				PropertyConstraints map[string]map[string]any `yaml:"propertyConstraints"`
			}
		}
		if err := yaml.Unmarshal([]byte(ptext), &back); err != nil || back.Profile != pname || back.Validations[vname].Message != message {
			ctx.Count("harness_yaml_selfcheck_skipped", 1)
			return
		}
		if lst, ok := back.Validations["lv"].PropertyConstraints["ex.tag"]["in"].([]any); !ok || len(lst) != 2 || fmt.Sprint(lst[0]) != listVal {
			ctx.Count("harness_yaml_selfcheck_skipped", 1)
			return
		}
		dtext, ids := mkData(listVal)
		// the namespace bound to the prefix `ex` alternates between profiles of one worker process
		const altNS = "http://alt.example/vocab#"
		ns := lib.EX
		if (i/16)%2 == 1 {
			ns = altNS
			ptext = strings.Replace(ptext, "  ex: "+lib.EX, "  ex: "+altNS, 1)
			dtext = strings.ReplaceAll(dtext, lib.EX, altNS)
			nids := map[string]bool{}
			for id := range ids {
				nids[strings.Replace(id, lib.EX, altNS, 1)] = true
			}
			ids = nids
			ctx.Count("profiles_binding_ex_to_the_alternative_namespace", 1)
		}
		hostile := mask
		key := fmt.Sprintf("%x", hash(pname+"\x00"+vname+"\x00"+message+"\x00"+listVal))
		_ = hostile
		ctx.Eval(key)
		for b := 0; b < 4; b++ {
			if mask&(1<<uint(b)) != 0 {
				ctx.Count([]string{"hostile_profile_name", "hostile_validation_name", "hostile_message", "hostile_list_value"}[b], 1)
			}
		}
		base := map[string]any{"profile": ptext, "data": dtext, "profile_name": pname, "validation_name": vname, "message": message, "list_value": listVal, "expected_message": expMsg.String()}
		o := lib.Validate(ptext, dtext)
		if o.Failed() {
			ctx.Violation("does-not-compile", fmt.Sprintf("profile with name %q validation %q message %q list value %q failed: %s", clip(pname, 60), clip(vname, 60), clip(message, 80), clip(listVal, 60), clip(o.ErrString(), 300)), base)
			return
		}
		rep, err := lib.ParseReport(o.Report)
		if err != nil {
			ctx.Violation("bad-report", err.Error(), base)
			return
		}
		if rep.ProfileName != pname {
			ctx.Violation("profile-name", fmt.Sprintf("profileName %q, profile is named %q", clip(rep.ProfileName, 100), clip(pname, 100)), base)
		}
		// expected results: vname -> t_fail ; lv/lvall/lvsome -> l_other only
		want := map[string][]string{vname: {ns + "t_fail"}, "lv": {ns + "l_other"}, "lvall": {ns + "l_other"}, "lvsome": {ns + "l_other"}}
		got := rep.FocusByName()
		names := map[string]bool{}
		for k := range want {
			names[k] = true
		}
		for k := range got {
			names[k] = true
		}
		for _, k := range lib.SortedKeys(names) {
			w, g := want[k], got[k]
			sort.Strings(w)
			if !lib.SetEq(w, g) {
				ctx.Violation("meaning-changed", fmt.Sprintf("validation %q reports %v, with bland text it reports %v", clip(k, 80), short(g), short(w)), base)
			}
		}
		for _, res := range rep.Results {
			if res.Name == vname && res.Focus == ns+"t_fail" && res.Message != expMsg.String() {
				ctx.Violation("message", fmt.Sprintf("resultMessage %q, expected %q (message as written: %q)", clip(res.Message, 160), clip(expMsg.String(), 160), clip(message, 160)), base)
				break
			}
		}
		if d := lib.CheckWellFormed(rep, lib.WFInput{NodeIDs: ids, Validations: prof.ValidationNames()}); len(d) > 0 {
			ctx.Violation("malformed-report", strings.Join(d[:min(2, len(d))], "; "), base)
		}
		if i%300 == 0 {
			ctx.Sample(map[string]any{"profile_name": clip(pname, 80), "validation_name": clip(vname, 80), "message": clip(message, 120), "expected_message": clip(expMsg.String(), 120), "list_value": clip(listVal, 60)})
		}
	})
	ctx.FinishShard()
}
