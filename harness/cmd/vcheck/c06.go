package main

import (
	"bytes"
	"crypto/sha256"
	"fmt"
	"github.com/aml-org/amf-custom-validator/pkg/config"
	"math/rand"
	"os"
	"os/exec"
	"path/filepath"
	"strings"
	"time"

	"verif/lib"
)

func init() { checks["C06"] = c06 }

func sha(s string) string { return fmt.Sprintf("%x", sha256.Sum256([]byte(s))) }

// c06Profile: the shape the property names - several quantified constraints under one mapping, many keys per
// mapping, several validations per level, many prefixes.
func c06Profile(r *rand.Rand, i int) (*lib.ProfileDoc, *lib.Graph) {
	prof := &lib.ProfileDoc{Name: fmt.Sprintf("c06-%d", i), Prefixes: [][2]string{{"ex", lib.EX}}}
	for k := 0; k < r.Intn(6); k++ {
		prof.Prefixes = append(prof.Prefixes, [2]string{fmt.Sprintf("pfx%d", k), fmt.Sprintf("http://pfx%d.example/", k)})
	}
	g := lib.NewGraph()
	nv := 1 + r.Intn(3)
	for v := 0; v < nv; v++ {
		target := fmt.Sprintf("T%d", v)
		nT := 1 + r.Intn(4)
		for k := 0; k < nT; k++ {
			nd := g.AddNode(fmt.Sprintf("%sv%d_t%d", lib.EX, v, k), lib.EX+target)
			for c := 0; c < 5; c++ {
				for j := 0; j < r.Intn(3); j++ {
					ch := g.AddNode(fmt.Sprintf("%sv%d_t%d_c%d_%d", lib.EX, v, k, c, j), lib.EX+"C")
					nd.Add(fmt.Sprintf("%sc%d", lib.EX, c), lib.RefV(ch.ID))
					if r.Intn(2) == 0 {
						ch.Add(lib.EX+"x", lib.StrV("x"))
					}
				}
			}
		}
		pc := lib.PC{}
		nq := 3 + r.Intn(4)
		for q := 0; q < nq && q < 5; q++ {
			inner := lib.PC1("ex.x", lib.CScalar("minCount", lib.Int(1)))
			var c lib.Constraint
			switch r.Intn(3) {
			case 0:
				c = lib.CNested(inner)
			case 1:
				c = lib.CAtLeast(1+r.Intn(2), inner)
			default:
				c = lib.CAtMost(r.Intn(2), inner)
			}
			path := fmt.Sprintf("ex.c%d", q)
			switch r.Intn(8) {
			case 0: // the path parser also accepts a transitive mark on a step (not in the documented grammar): such a profile is a profile too
				path += "*"
			case 1:
				path = fmt.Sprintf("ex.c%d* / ex.c%d | ex.up^", q, (q+1)%5)
			case 2:
				path = fmt.Sprintf("(ex.c%d | ex.c%d) / ex.c%d^", q, (q+1)%5, (q+2)%5)
			}
			pc.Entries = append(pc.Entries, lib.PCEntry{Path: path, Constraints: []lib.Constraint{c, lib.CScalar("maxCount", lib.Int(5))}})
		}
		var body lib.Expr = pc
		switch r.Intn(4) {
		case 0:
			body = lib.OrE{Items: []lib.Expr{pc, lib.PC1("ex.never", lib.CScalar("minCount", lib.Int(1)))}}
		case 1:
			body = lib.AndE{Items: []lib.Expr{pc, lib.NotE{Item: pc}}}
		}
		name := fmt.Sprintf("val%d", v)
		val := lib.Validation{Name: name, TargetClass: "ex." + target, Message: "m " + name, Body: body}
		switch r.Intn(10) { // messages that are not YAML strings; messages with several / repeated placeholders
		case 4:
			val.Message = "m {{ex.x}} of {{ex.c0}} then {{ex.x}} again, {{ex.c1}} {{ex.c0}}"
		case 5:
			val.Message = "{{ex.c2}}{{ex.c1}}{{ex.c2}}{{ex.x}}{{ex.c1}}{{ex.none}}"
		case 0:
			val.MessageRaw = lib.Int(404)
		case 1:
			val.MessageRaw = lib.Bool(true)
		case 2:
			val.MessageRaw = lib.RawScalar(pick(r, "2024-02-29", "null", "~", "1.5", "0x1F"))
		case 3:
			val.MessageRaw = lib.StrSeq("a", "b")
		}
		prof.Validations = append(prof.Validations, val)
		switch r.Intn(3) {
		case 0:
			prof.Violation = append(prof.Violation, name)
		case 1:
			prof.Warning = append(prof.Warning, name)
		default:
			prof.Info = append(prof.Info, name)
		}
	}
	return prof, g
}

// twoSourceInfos: a valid document with two source-information nodes and two source maps covering one element.
func twoSourceInfos() string {
	d := lib.SourceMapDoc()
	extra := `,{"@id":"http://ex.org/si2","@type":["http://a.ml/vocabularies/document#BaseUnitSourceInformation"],"http://a.ml/vocabularies/document#rootLocation":[{"@value":"file:///other-root.yaml"}]},` +
		`{"@id":"http://ex.org/sm3","@type":["http://a.ml/vocabularies/document-source-maps#SourceMap"],"http://a.ml/vocabularies/document-source-maps#lexical":[{"@id":"http://ex.org/lx3"}]},` +
		`{"@id":"http://ex.org/lx3","http://a.ml/vocabularies/document-source-maps#element":[{"@value":"http://ex.org/n1"}],"http://a.ml/vocabularies/document-source-maps#value":[{"@value":"[(100,0)-(101,1)]"}]}]`
	d = strings.TrimSpace(d)
	return d[:len(d)-1] + extra
}

// C06: same inputs => byte-identical report (repeated calls, other calls in between, fresh processes,
// concurrency) and byte-identical generated code in fresh processes.
func c06(tier string) {
	ctx := lib.NewCtx("C06", tier)
	ctx.Rule = "profiles with 3-5 quantified constraints under one propertyConstraints mapping (also inside and/or/not), several validations per level and many prefixes, plus repository fixture profiles with their data and documents with several source-information nodes; per (profile, data): digests of R in-process repetitions, of the same call after all other pairs of the worker ran in between, of K fresh processes (each in another working directory, time zone and locale), of 16 concurrent goroutines in a fresh process, and per profile of K fresh `acv generate` processes; the number of distinct digests per input must be 1; " +
		"non-trivial & distinct = (profile, data) pair whose report has results or whose profile has >=3 keys in one mapping"
	ctx.Assumptions = []string{"detection of an order-dependent generator is probabilistic per run: with >=3 keys in a Go map one repetition changes the order with probability >=1/2; R repetitions x K processes per input are reported as counters"}
	n := ctx.N(64, 320)
	R := ctx.N(12, 40)
	K := ctx.N(3, 12)
	if !ctx.IsShard() {
		ctx.RunShards()
		ctx.MinDistinct = 20
		ctx.Finish()
	}
	self, acv := os.Getenv("VERIF_SELF"), os.Getenv("VERIF_ACV")
	tmp := lib.TempDir("c06")
	defer os.RemoveAll(tmp)
	fx := lib.LoadFixtures(30, 30)
	type pair struct {
		p, d   string
		digest string
		label  string
		zero   string // digest under the clock that stands at the zero instant (the same clock is the same clock, whenever it is asked)
	}
	var mine []*pair
	ctx.ForEach(n, func(i int) {
		r := lib.CaseRand(ctx.Seed, 6, i)
		pr := &pair{}
		kind := r.Intn(16) // drawn per case: every worker (cases i = k mod 16) sees every kind
		switch {
		case i < 16 && i%4 == 1:
			// large profiles (36 and ~40 validations): generation of many rules, compared across fresh processes below
			wp, wg := c10WideProfile()
			if i%8 == 5 {
				for k := 0; k < 8; k++ {
					name := fmt.Sprintf("extra%d", k)
					wp.Validations = append(wp.Validations, lib.Validation{Name: name, TargetClass: "ex.T", Message: "m " + name,
						Body: lib.PC1(fmt.Sprintf("ex.q%d | ex.leaf%d^", k, k), lib.CNested(lib.PC1("ex.x", lib.CScalar("minCount", lib.Int(1)))), lib.CScalar("maxCount", lib.Int(3)))})
					wp.Warning = append(wp.Warning, name)
				}
			}
			pr.p, pr.d, pr.label = wp.Text(), wg.CanonicalJSONLD(), "large-profile"
		case kind%4 == 3 && len(fx.Profiles) > 0 && len(fx.Data) > 0:
			pr.p, pr.d, pr.label = fx.Profiles[r.Intn(len(fx.Profiles))], fx.Data[r.Intn(len(fx.Data))], "fixture"
		case kind == 2:
			pr.p, pr.d, pr.label = c17GoodProfile, twoSourceInfos(), "two-source-infos"
		case kind == 6 || kind == 10:
			// locations recorded as relative paths: what the report says about them does not depend on where the process runs
			pr.p, pr.label = c14Profile().Text(), "relative-locations"
			pr.d = strings.ReplaceAll(strings.ReplaceAll(lib.SourceMapDoc(), "file:///root.yaml", "specs/root.yaml"), "file:///lib.yaml", "../libs/lib.yaml")
		case kind%8 == 5:
			// a profile that re-binds built-in prefixes: must not influence what other profiles mean afterwards
			prof, g := c06Profile(r, i)
			for _, b := range []string{"core", "apiContract", "shapes", "doc", "security", "data", "shacl", "raml-shapes", "apiExt", "meta"} {
				prof.Prefixes = append(prof.Prefixes, [2]string{b, "http://rebound.example/" + b + "#"})
			}
			pr.p, pr.d, pr.label = prof.Text(), g.CanonicalJSONLD(), "rebinds-builtin-prefixes"
		default:
			prof, g := c06Profile(r, i)
			pr.p, pr.d, pr.label = prof.Text(), g.CanonicalJSONLD(), "generated"
			if i%3 == 0 {
				pr.d = lib.DecorateWithSourceMaps(g, r).Text
			}
		}
		mine = append(mine, pr)
		base := map[string]any{"profile": pr.p, "data": pr.d}
		// (a) repeated in-process calls
		digests := map[string]int{}
		var first lib.Outcome
		for k := 0; k < R; k++ {
			o := lib.Validate(pr.p, pr.d)
			if k == 0 {
				first = o
			}
			if o.Failed() {
				digests["ERROR"]++
			} else {
				digests[sha(o.Report)]++
			}
		}
		ctx.Count("in_process_repetitions", R)
		key := ""
		if !first.Failed() {
			pr.digest = sha(first.Report)
			if rep, err := lib.ParseReport(first.Report); err == nil && len(rep.Results) > 0 {
				key = fmt.Sprint(i)
			}
		} else {
			pr.digest = "ERROR"
		}
		ctx.Eval(key)
		if len(digests) > 1 {
			base["digests"] = digests
			ctx.Violation("in-process-nondeterminism", fmt.Sprintf("%s pair %d: %d distinct reports in %d repeated calls", pr.label, i, len(digests), R), base)
			return
		}
		if first.Failed() {
			return
		}
		if oz := lib.ValidateCfg(pr.p, pr.d, nil, lib.FixedClock{}, config.DefaultReportConfiguration()); !oz.Failed() {
			mine[len(mine)-1].zero = sha(oz.Report)
		}
		pf, df := filepath.Join(tmp, "p.yaml"), filepath.Join(tmp, "d.jsonld")
		_ = os.WriteFile(pf, []byte(pr.p), 0o644)
		_ = os.WriteFile(df, []byte(pr.d), 0o644)
		// (b) fresh processes: report
		if self != "" && (i%2 == 0 || pr.label == "relative-locations") {
			seen := map[string]int{pr.digest: 1}
			for k := 0; k < K; k++ {
				// every fresh process runs somewhere else, in another time zone and locale
				fc := exec.Command(self, "child", "report", pf, df)
				fc.Dir = []string{tmp, "/", os.TempDir(), filepath.Dir(self)}[k%4]
				fc.Env = append(os.Environ(), []string{"TZ=UTC", "TZ=Asia/Kolkata", "TZ=America/St_Johns", "TZ=Pacific/Kiritimati"}[k%4], []string{"LANG=C", "LANG=tr_TR.UTF-8", "LC_ALL=de_DE.UTF-8", "LANG=ja_JP.UTF-8"}[(k+1)%4])
				out, err := fc.Output()
				if err != nil {
					ctx.Inconclusive("fresh-process helper failed: " + err.Error())
					break
				}
				seen[sha(string(out))]++
				ctx.Count("fresh_process_reports", 1)
			}
			if len(seen) > 1 {
				base["digests"] = seen
				ctx.Violation("cross-process-nondeterminism", fmt.Sprintf("%s pair %d: %d distinct reports over %d fresh processes + this process", pr.label, i, len(seen), K), base)
			}
		}
		// (c) concurrency, in a fresh process (a crash there is a refuting observation too)
		if self != "" && i%4 == 0 {
			cmd := exec.Command(self, "child", "conc", pf, df, "16")
			var so, se bytes.Buffer
			cmd.Stdout, cmd.Stderr = &so, &se
			err := cmd.Run()
			ctx.Count("concurrent_batches_of_16", 1)
			lines := strings.Fields(strings.TrimSpace(so.String()))
			if err != nil {
				base["stderr"] = clip(se.String(), 3000)
				ctx.Violation("concurrent-crash", fmt.Sprintf("%s pair %d: 16 concurrent validations killed the process: %v", pr.label, i, err), base)
			} else if len(lines) != 1 || lines[0] != pr.digest {
				base["digests"] = lines
				ctx.Violation("concurrent-nondeterminism", fmt.Sprintf("%s pair %d: 16 concurrent validations produced %d distinct reports (serial digest %s)", pr.label, i, len(lines), pr.digest[:12]), base)
			}
		}
		// (d) generated code in fresh processes
		if acv != "" && i%2 == 1 {
			seen := map[string]int{}
			for k := 0; k < K+1; k++ {
				gc := exec.Command(acv, "generate", pf)
				gc.Dir = []string{tmp, "/", os.TempDir(), filepath.Dir(acv)}[k%4]
				gc.Env = append(os.Environ(), []string{"TZ=UTC", "TZ=Asia/Kolkata", "TZ=America/St_Johns", "TZ=Pacific/Kiritimati"}[k%4])
				out, err := gc.Output()
				if err != nil {
					break
				}
				seen[sha(string(out))]++
				ctx.Count("fresh_process_generations", 1)
			}
			if len(seen) > 1 {
				base["digests"] = seen
				ctx.Violation("generated-code-nondeterminism", fmt.Sprintf("%s profile %d: %d distinct `acv generate` outputs over %d fresh processes", pr.label, i, len(seen), K+1), base)
			}
		}
		if i < 2 {
			ctx.Sample(map[string]any{"kind": pr.label, "profile_head": head(pr.p, 25), "report_sha256": pr.digest})
		}
	})
	time.Sleep(1100 * time.Millisecond) // the calendar second changes between the first visits and the revisits (no verdict depends on the duration)
	// (e) again, after every other pair of this worker was validated in between (and in reverse order)
	for k := len(mine) - 1; k >= 0; k-- {
		pr := mine[k]
		o := lib.Validate(pr.p, pr.d)
		d := "ERROR"
		if !o.Failed() {
			d = sha(o.Report)
		}
		ctx.Count("revalidations_after_other_profiles", 1)
		if pr.zero != "" {
			// seconds (at least one: see below) after the first call under the zero-instant clock
			if oz := lib.ValidateCfg(pr.p, pr.d, nil, lib.FixedClock{}, config.DefaultReportConfiguration()); oz.Failed() || sha(oz.Report) != pr.zero {
				ctx.Violation("history-dependent-report", fmt.Sprintf("%s pair: under a clock standing at the zero instant the report differs between two calls some seconds apart", pr.label), map[string]any{"profile": pr.p, "data": pr.d})
			}
			ctx.Count("revalidations_under_the_zero_instant_clock", 1)
		}
		if d != pr.digest {
			ctx.Violation("history-dependent-report", fmt.Sprintf("%s pair: the report differs after other profiles were validated in the same process (%s vs %s)", pr.label, clip(d, 12), clip(pr.digest, 12)), map[string]any{"profile": pr.p, "data": pr.d})
		}
	}
	ctx.FinishShard()
}
