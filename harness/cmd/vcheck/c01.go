package main

import (
	"fmt"
	"os"
	"sort"
	"strings"

	"verif/lib"
)

func init() { checks["C01"] = c01 }

// C01: a validation reports a node iff the node is an instance of the target class and fails the formula
// (classical connectives, nested = forall reached nodes, atLeast/atMost = counting), and equivalent
// spellings report the same nodes. Oracle: reference evaluator over a graph whose atom truths are known
// by construction; for the plain atoms of the top level ALL truth assignments are present as target nodes.
func c01(tier string) {
	ctx := lib.NewCtx("C01", tier)
	ctx.Rule = "random formula families (and/or/not/if/then/else, nested/atLeast/atMost to quantifier depth 3) over the documented atomic constraints; " +
		"each family's graph holds one target node per truth assignment of its top-level plain atoms (exhaustive truth table) plus children for quantified leaves; " +
		"a case = one validation (base or meaning-preserving rewrite); non-trivial & distinct = formula text with >=2 leaves whose target nodes include both verdicts"
	ctx.Assumptions = []string{
		"per-value atoms are placed on single-valued properties and containsAll/containsSome on non-empty value sets (DESIGN §5 C01 fence i)",
		"the reference evaluator is the harness's reading of the statement of C01; atoms are true/false by construction of the data",
	}
	nSkel := ctx.N(100, 1000)      // profiles, 3 families each
	nQuant := ctx.N(60, 500)       // profiles, 2 families each
	nSweep := len(c01SweepKinds()) // one profile per offset: every kind of atom at every position of the variable order
	total := nSkel + nQuant + nSweep
	if !ctx.IsShard() {
		ctx.RunShards()
	} else {
		c01Workload(ctx, nSkel, total)
		ctx.FinishShard()
	}
	atomCells := ctx.CountersWithPrefix("atom:")
	ctx.Extra["atom_kind_polarity_cells_covered"] = len(atomCells)
	ctx.Extra["atom_kind_polarity_cells_total"] = 2 * len(lib.AtomKinds)
	for _, k := range lib.AtomKinds {
		for _, par := range []string{"neg0", "neg1"} {
			if atomCells[k.Name+"|"+par] == 0 {
				ctx.Inconclusive(fmt.Sprintf("atomic constraint %s never exercised under polarity %s", k.Name, par))
			}
		}
	}
	matrix := ctx.CountersWithPrefix("matrix:")
	ctx.Extra["connective_context_matrix_cells"] = len(matrix)
	// the matrix must show every connective under both polarities
	for _, conn := range []string{"and", "or", "not", "if", "ifelse", "atom", "quant"} {
		for _, par := range []string{"neg0", "neg1"} {
			found := false
			for k := range matrix {
				if strings.HasPrefix(k, conn+"|"+par+"|") {
					found = true
				}
			}
			if !found {
				ctx.Inconclusive(fmt.Sprintf("coverage matrix has no cell for %s under %s", conn, par))
			}
		}
	}
	ctx.MinDistinct = 50
	ctx.Finish()
}

// c01SweepKinds: the atoms of the sibling sweep (the atom of the known finding F16 is judged in the random families only)
func c01SweepKinds() []lib.AtomKind {
	var ks []lib.AtomKind
	for _, k := range lib.AtomKinds {
		if k.Name != "inFractional" {
			ks = append(ks, k)
		}
	}
	return ks
}

func c01Workload(ctx *lib.Ctx, nSkel, total int) {
	sweepKinds := c01SweepKinds()
	sweepFrom := total - len(sweepKinds)
	ctx.ForEach(total, func(i int) {
		quant := i >= nSkel
		sweep := i >= sweepFrom
		stream := 1
		if quant {
			stream = 2
		}
		r := lib.CaseRand(ctx.Seed, stream, i)
		nFam := 3
		if quant {
			nFam = 2
		}
		if sweep {
			nFam = 1
		}
		prof := &lib.ProfileDoc{Name: fmt.Sprintf("c01-%d", i), Prefixes: [][2]string{{"ex", lib.EX}}}
		g := lib.NewGraph()
		type vcase struct {
			name     string
			f        lib.F
			w        *lib.World
			base     bool
			expected []string
			targets  []string
		}
		var cases []vcase
		for fam := 0; fam < nFam; fam++ {
			spec := lib.WorldSpec{Base: fam * 1000, MaxDepth: 2 + r.Intn(3)}
			if quant {
				spec.NAtoms = r.Intn(3)
				spec.NQuants = 1 + r.Intn(2)
				spec.QuantDepth = 1 + r.Intn(3)
				if fam == 0 && !sweep && r.Intn(3) == 0 {
					// many quantified siblings in one validation, their bodies mostly over set-valued constraints
					spec.ManyQuants = true
					spec.NAtoms = r.Intn(2)
					spec.NQuants = 5 + r.Intn(5)
					spec.QuantDepth = 1 + r.Intn(2)
					spec.AtomFilter = func(k lib.AtomKind) bool {
						return k.Name != "inFractional" && (strings.HasPrefix(k.Name, "contains") || strings.HasPrefix(k.Name, "in") || r.Intn(4) == 0)
					}
					ctx.Count("families_with_5_to_10_quantified_siblings", 1)
				}
			} else {
				spec.NAtoms = 1 + r.Intn(5)
				if fam == 0 && r.Intn(3) == 0 {
					spec.NAtoms = 3 + r.Intn(3)
					spec.WideOr = true
					ctx.Count("families_with_wide_or_of_conjunctions", 1)
				}
			}
			w, root := (*lib.World)(nil), lib.F(nil)
			if sweep {
				// 28 siblings: the 25 names of the translator's list and the numbered ones after them
				// and, for every twelfth offset, 60 siblings (beyond every name list) as the operands of one `or`
				nSib, disj := 28, (i-sweepFrom)%2 == 1
				if (i-sweepFrom)%12 == 0 {
					nSib, disj = 60, true
				}
				w, root = lib.NewSiblingWorld(r, spec.Base, nSib, i-sweepFrom, sweepKinds, disj)
				ctx.Count(fmt.Sprintf("sibling_sweep_profiles_%d_quantified_siblings_disjunction_%v", nSib, disj), 1)
			} else {
				w, root = lib.NewWorld(r, spec)
			}
			// merge world graph into the document graph
			for _, n := range w.G.Nodes {
				nn := g.AddNode(n.ID, n.Types...)
				nn.Props = n.Props
			}
			target := fmt.Sprintf("T%d", spec.Base)
			forms := []lib.F{root, lib.Rewrite(root, r), lib.Rewrite(lib.Rewrite(root, r), r)}
			classes := []string{target, target, target}
			if !sweep {
				// the same formula over the second class some of the targets belong to
				forms = append(forms, root)
				classes = append(classes, fmt.Sprintf("X%d", spec.Base))
			}
			for k, f := range forms {
				target := classes[k]
				name := fmt.Sprintf("v%d_%d", fam, k)
				prof.Validations = append(prof.Validations, lib.Validation{Name: name, TargetClass: "ex." + target, Message: "m " + name, Body: w.ToExpr(f, r)})
				prof.Violation = append(prof.Violation, name)
				var exp, tg []string
				for _, n := range w.G.OfType(lib.EX + target) {
					tg = append(tg, n.ID)
					if !w.Eval(f, n.ID) {
						exp = append(exp, n.ID)
					}
				}
				sort.Strings(exp)
				cases = append(cases, vcase{name: name, f: f, w: w, base: k == 0, expected: exp, targets: tg})
			}
		}
		ptext := prof.Text()
		dtext := g.CanonicalJSONLD()
		// vocabulary modes: the profile's own prefix `ex` (declared) / a BUILT-IN prefix used without declaring it
		// (data in that vocabulary) / a built-in prefix name re-bound by the profile to the example namespace.
		// What a profile means must not depend on which other profiles the process compiled before it.
		idOf := func(id string) string { return id }
		switch (i / 16) % 4 { // workers take the cases i = k mod 16: modes alternate inside every worker
		case 1:
			// the profile's own prefix bound to a namespace that does not end in '/' (nor, mostly, in '#')
			ns := lib.Namespaces[1+(i/64)%(len(lib.Namespaces)-1)]
			ptext = strings.Replace(ptext, "  ex: "+lib.EX+"\n", "  ex: \""+ns+"\"\n", 1)
			dtext = lib.Rebase(dtext, lib.EX, ns)
			idOf = func(id string) string { return strings.Replace(id, lib.EX, ns, 1) }
			ctx.Count("profiles_over_namespaces_without_trailing_slash", 1)
		case 2:
			const coreNS = "http://a.ml/vocabularies/core#"
			ptext = strings.Replace(renameInProfileText(ptext, "core"), "prefixes:\n  ex: "+lib.EX+"\n", "", 1)
			dtext = strings.ReplaceAll(dtext, lib.EX, coreNS)
			idOf = func(id string) string { return strings.Replace(id, lib.EX, coreNS, 1) }
			ctx.Count("profiles_using_builtin_prefix_undeclared", 1)
		case 3:
			ptext = strings.Replace(renameInProfileText(ptext, "core"), "  ex: "+lib.EX, "  core: "+lib.EX, 1)
			ctx.Count("profiles_rebinding_builtin_prefix", 1)
		}
		if d := os.Getenv("VERIF_DUMP_C01"); d != "" {
			os.WriteFile(fmt.Sprintf("%s/c01_%d.yaml", d, i), []byte(ptext), 0o644)
			os.WriteFile(fmt.Sprintf("%s/c01_%d.jsonld", d, i), []byte(dtext), 0o644)
		}
		o := lib.Validate(ptext, dtext)
		func() {
			replay := map[string]any{"profile": ptext, "data": dtext, "case": i}
			if o.Failed() {
				ctx.Eval("")
				ctx.Violation("call-failed", fmt.Sprintf("declarative profile could not be validated: %s", o.ErrString()), replay)
				return
			}
			rep, err := lib.ParseReport(o.Report)
			if err != nil {
				ctx.Eval("")
				ctx.Violation("bad-report", err.Error(), replay)
				return
			}
			got := rep.FocusByName()
			for _, c := range cases {
				key := ""
				a, q := map[int]bool{}, map[int]bool{}
				lib.Leaves(c.f, a, q)
				if len(a)+len(q) >= 2 && len(c.expected) > 0 && len(c.expected) < len(c.targets) {
					key = lib.FString(c.f) + "#" + strings.Join(c.expected, ",")
				}
				ctx.Eval(key)
				ctx.Count("target_nodes_judged", len(c.targets))
				coverAtoms(ctx, c.w, c.f, 0)
				lib.CoverFormula(c.f, 0, "top", func(conn string, parity int, parent string) {
					ctx.Count(fmt.Sprintf("matrix:%s|neg%d|%s", conn, parity, parent), 1)
				})
				if c.base {
					ctx.Count("formulas_base", 1)
				} else {
					ctx.Count("formulas_rewritten", 1)
				}
				if quant {
					ctx.Count("validations_with_quantifiers", 1)
				}
				g := got[c.name]
				if g == nil {
					g = []string{}
				}
				e := []string{}
				for _, id := range c.expected {
					e = append(e, idOf(id))
				}
				sort.Strings(e)
				if !lib.SetEq(g, e) {
					// known finding: in/containsAll/containsSome over fractional numbers never match
					c.w.Override = map[int]bool{}
					for ai, k := range c.w.Atoms {
						if k.Name == "inFractional" {
							c.w.Override[ai] = false
						}
					}
					e2 := []string{}
					hasKnown := len(c.w.Override) > 0
					if hasKnown {
						for _, id := range c.targets {
							if !c.w.Eval(c.f, id) {
								e2 = append(e2, idOf(id))
							}
						}
						sort.Strings(e2)
					}
					c.w.Override = nil
					if hasKnown && lib.SetEq(g, e2) {
						ctx.Count("known_in_with_fractional_number_cases", 1)
						ctx.Violation("in-with-fractional-number", "", map[string]any{"profile": ptext, "data": dtext, "validation": c.name, "formula": lib.FString(c.f)})
						continue
					}
					rp := map[string]any{"profile": ptext, "data": dtext, "validation": c.name, "formula": lib.FString(c.f),
						"expected": map[string]any{c.name: e}, "observed": g}
					ctx.Violation("reported-set", fmt.Sprintf("validation %s formula %s: reported %v, reference evaluator says %v", c.name, lib.FString(c.f), short(g), short(e)), rp)
				}
			}
			if i < 3 && len(cases) > 0 {
				ctx.Sample(map[string]any{"formula": lib.FString(cases[0].f), "rewrite": lib.FString(cases[1].f), "expected_reported": cases[0].expected, "targets": len(cases[0].targets), "profile_head": head(ptext, 30)})
			}
			if defects := lib.CheckWellFormed(rep, lib.WFInput{}); len(defects) > 0 {
				ctx.Count("note_C12_defects_seen", 1)
			}
		}()
	})
}

func short(xs []string) []string {
	out := make([]string, len(xs))
	for i, x := range xs {
		out[i] = strings.TrimPrefix(x, lib.EX)
	}
	return out
}

func head(s string, n int) string {
	lines := strings.Split(s, "\n")
	if len(lines) > n {
		lines = lines[:n]
	}
	return strings.Join(lines, "\n")
}

// coverAtoms records (atom kind, polarity) and (quantifier kind/shape, polarity), descending into quantifier bodies.
func coverAtoms(ctx *lib.Ctx, w *lib.World, f lib.F, parity int) {
	switch v := f.(type) {
	case lib.FAtom:
		ctx.Count(fmt.Sprintf("atom:%s|neg%d", w.Atoms[v.I].Name, parity), 1)
	case lib.FQuant:
		q := w.Quants[v.Q]
		ctx.Count(fmt.Sprintf("quant:%s/%s|neg%d", q.Kind, q.Shape, parity), 1)
		coverAtoms(ctx, w, q.Inner, 0)
	case lib.FNot:
		coverAtoms(ctx, w, v.X, 1-parity)
	case lib.FAnd:
		for _, x := range v.Xs {
			coverAtoms(ctx, w, x, parity)
		}
	case lib.FOr:
		for _, x := range v.Xs {
			coverAtoms(ctx, w, x, parity)
		}
	case lib.FIf:
		coverAtoms(ctx, w, v.A, 1-parity)
		coverAtoms(ctx, w, v.B, parity)
	case lib.FIfElse:
		coverAtoms(ctx, w, v.A, parity)
		coverAtoms(ctx, w, v.A, 1-parity)
		coverAtoms(ctx, w, v.B, parity)
		coverAtoms(ctx, w, v.C, parity)
	}
}

// renameInProfileText renames the prefix `ex` in every compact IRI of a printed profile (the namespace IRI itself is protected).
func renameInProfileText(ptext, to string) string {
	const guard = "\x00NS\x00"
	t := strings.ReplaceAll(ptext, lib.EX, guard)
	t = renamePrefix(t, func() string { return to })
	return strings.ReplaceAll(t, guard, lib.EX)
}
