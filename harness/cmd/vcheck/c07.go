package main

import (
	"fmt"
	"strings"

	"verif/lib"
)

func init() { checks["C07"] = c07 }

var c07PathShapes = []struct{ name, path string }{
	{"pred", "ex.a"},
	{"inverse", "ex.a^"},
	{"seq2", "ex.a / ex.b"},
	{"seq4", "ex.a / ex.b / ex.c / ex.d"},
	{"alt2", "ex.a | ex.b"},
	{"alt3", "ex.a | ex.b | ex.c"},
	{"alt-in-seq", "ex.a / (ex.b | ex.c) / ex.d"},
	{"seq-in-alt", "(ex.a / ex.b) | (ex.c / ex.d)"},
	{"inverse-after-alt", "(ex.a | ex.b) / ex.c^"},
	{"alt-after-long-seq", "(ex.a / ex.b / ex.c) / ex.d^ | ex.e"},
	{"redundant-parens", "((ex.a)) / ((ex.b | (ex.c)))"},
	{"type-tail", "ex.a / @type"},
	{"custom-property", "apiExt.wadus"},
	{"custom-in-seq", "ex.a / apiExt.wadus"},
	{"inverse-seq", "ex.a^ / ex.b^ / ex.c"},
	{"nested-alt", "(ex.a | (ex.b | ex.c)) | ex.d"},
}

type c07Case struct {
	name string
	prof *lib.ProfileDoc
}

// c07RawText: cases given as profile text (shapes the block-style printer would blow up), by case name
var c07RawText = map[string]string{}

func (c c07Case) Text() string {
	if t, ok := c07RawText[c.name]; ok {
		return t
	}
	return c.prof.Text()
}

func c07Raw(name, text string) c07Case {
	c07RawText[name] = text
	return c07Case{name, nil}
}

func c07Wrap(name string, body lib.Expr) *lib.ProfileDoc {
	return &lib.ProfileDoc{Name: "c07 " + name, Prefixes: [][2]string{{"ex", lib.EX}}, Violation: []string{"v"},
		Validations: []lib.Validation{{Name: "v", TargetClass: "ex.T", Message: "m", Body: body}}}
}

func c07Cases(ctx *lib.Ctx) []c07Case {
	var cases []c07Case
	leaf := lib.PC1("ex.leaf", lib.CScalar("minCount", lib.Int(1)))
	// (1) pairwise matrix: constraint kind x path shape x polarity x context -- enumerated completely
	type kind struct {
		name string
		cs   func(i int) []lib.Constraint
	}
	var kinds []kind
	for _, k := range lib.AtomKinds {
		k := k
		kinds = append(kinds, kind{k.Name, func(i int) []lib.Constraint { return k.Constraint(i) }})
	}
	kinds = append(kinds,
		kind{"nested", func(i int) []lib.Constraint { return []lib.Constraint{lib.CNested(leaf)} }},
		kind{"atLeast", func(i int) []lib.Constraint { return []lib.Constraint{lib.CAtLeast(2, leaf)} }},
		kind{"atMost", func(i int) []lib.Constraint { return []lib.Constraint{lib.CAtMost(1, leaf)} }},
		kind{"atLeast+atMost", func(i int) []lib.Constraint { return []lib.Constraint{lib.CAtLeast(1, leaf), lib.CAtMost(3, leaf)} }},
		kind{"nested+count", func(i int) []lib.Constraint {
			return []lib.Constraint{lib.CNested(leaf), lib.CScalar("minCount", lib.Int(1)), lib.CScalar("maxCount", lib.Int(4))}
		}},
	)
	for _, k := range kinds {
		for _, sh := range c07PathShapes {
			cs := k.cs(7)
			// the *Property argument of comparison constraints is a path as well
			for ci, c := range cs {
				if sc, ok := c.Value.(lib.YScalar); ok && strings.HasSuffix(c.Key, "Property") {
					sc.Text = "ex.q / ex.r"
					if sh.name == "pred" || sh.name == "alt2" {
						sc.Text = "ex.q7"
					}
					cs[ci].Value = sc
				}
			}
			atom := lib.PC1(sh.path, cs...)
			for _, pol := range []string{"plain", "not"} {
				var e lib.Expr = atom
				if pol == "not" {
					e = lib.NotE{Item: atom}
				}
				for _, cx := range []string{"top", "in-nested", "in-atLeast", "in-or"} {
					var body lib.Expr
					switch cx {
					case "top":
						body = e
					case "in-nested":
						body = lib.PC1("ex.outer", lib.CNested(e))
					case "in-atLeast":
						body = lib.PC1("ex.outer | ex.other^", lib.CAtLeast(1, e))
					default:
						body = lib.OrE{Items: []lib.Expr{e, lib.AndE{Items: []lib.Expr{leaf, lib.NotE{Item: e}}}}}
					}
					cases = append(cases, c07Case{fmt.Sprintf("matrix/%s/%s/%s/%s", k.name, sh.name, pol, cx), c07Wrap("matrix", body)})
				}
			}
		}
	}
	// negation directly above every connective
	a, b, c := lib.PC1("ex.p1", lib.CScalar("minCount", lib.Int(1))), lib.PC1("ex.p2", lib.CScalar("pattern", lib.Str("^x"))), lib.PC1("ex.p3", lib.CList("in", "u", "v"))
	conn := map[string]lib.Expr{
		"and": lib.AndE{Items: []lib.Expr{a, b}}, "or": lib.OrE{Items: []lib.Expr{a, b}}, "if": lib.IfE{If: a, Then: b}, "ifelse": lib.IfE{If: a, Then: b, Else: c},
		"nested": lib.PC1("ex.k", lib.CNested(a)), "atLeast": lib.PC1("ex.k", lib.CAtLeast(1, a)), "implicit-and": lib.PC{Entries: []lib.PCEntry{a.Entries[0], b.Entries[0], c.Entries[0]}},
	}
	for _, n1 := range lib.SortedKeys(conn) {
		cases = append(cases, c07Case{"not/" + n1, c07Wrap("not", lib.NotE{Item: conn[n1]})}, c07Case{"notnot/" + n1, c07Wrap("notnot", lib.NotE{Item: lib.NotE{Item: conn[n1]}})})
		for _, n2 := range lib.SortedKeys(conn) {
			cases = append(cases,
				c07Case{"not/" + n1 + "-in-" + n2, c07Wrap("nn", lib.OrE{Items: []lib.Expr{lib.NotE{Item: conn[n1]}, conn[n2]}})},
				c07Case{"nested-not/" + n1 + "-in-" + n2, c07Wrap("nn", lib.PC1("ex.z", lib.CNested(lib.AndE{Items: []lib.Expr{lib.NotE{Item: conn[n1]}, lib.NotE{Item: conn[n2]}}})))})
		}
	}
	// (2) scaling sweeps
	maxFlat, maxInner, maxDepth, maxVals := ctx.N(30, 70), ctx.N(28, 60), ctx.N(6, 8), ctx.N(24, 90) // OPA's compile time grows ~3.5x per nesting level (depth 10: minutes): bounded, stated in the evidence
	quant := func(i int) lib.Constraint {
		switch i % 3 {
		case 0:
			return lib.CNested(leaf)
		case 1:
			return lib.CAtLeast(1, leaf)
		}
		return lib.CAtMost(2, leaf)
	}
	for n := 1; n <= maxFlat; n += 1 + n/12 {
		pc := lib.PC{}
		for i := 0; i < n; i++ {
			pc.Entries = append(pc.Entries, lib.PCEntry{Path: fmt.Sprintf("ex.s%d", i), Constraints: []lib.Constraint{quant(i)}})
		}
		cases = append(cases, c07Case{fmt.Sprintf("scale/flat-quantified/%d", n), c07Wrap("flat", pc)})
	}
	for n := 1; n <= maxInner; n += 1 + n/10 {
		pc := lib.PC{}
		for i := 0; i < n; i++ {
			pc.Entries = append(pc.Entries, lib.PCEntry{Path: fmt.Sprintf("ex.s%d", i), Constraints: []lib.Constraint{quant(i)}})
		}
		cases = append(cases, c07Case{fmt.Sprintf("scale/quantified-inside-nested/%d", n), c07Wrap("inner", lib.PC1("ex.outer", lib.CNested(pc)))})
		// two levels: the siblings' bodies are quantified themselves
		pc2 := lib.PC{}
		for i := 0; i < n; i++ {
			pc2.Entries = append(pc2.Entries, lib.PCEntry{Path: fmt.Sprintf("ex.s%d", i), Constraints: []lib.Constraint{lib.CNested(lib.PC1("ex.t", quant(i+1)))}})
		}
		if n <= maxInner/2 {
			cases = append(cases, c07Case{fmt.Sprintf("scale/quantified-two-levels/%d", n), c07Wrap("inner2", lib.PC1("ex.outer", lib.CAtLeast(1, pc2)))})
		}
	}
	for d := 1; d <= maxDepth; d++ {
		for w := 1; w <= 3; w++ {
			var build func(depth int) lib.Expr
			build = func(depth int) lib.Expr {
				if depth == 0 {
					return leaf
				}
				pc := lib.PC{}
				for i := 0; i < w; i++ {
					inner := leaf
					if i == 0 {
						if in, ok := build(depth - 1).(lib.PC); ok {
							inner = in
						}
					}
					pc.Entries = append(pc.Entries, lib.PCEntry{Path: fmt.Sprintf("ex.d%d", i), Constraints: []lib.Constraint{quant(depth + i), lib.CNested(inner)}[1:]})
				}
				return pc
			}
			cases = append(cases, c07Case{fmt.Sprintf("scale/nesting-depth/%d-width-%d", d, w), c07Wrap("depth", build(d))})
		}
	}
	for n := 1; n <= maxVals; n += 1 + n/8 {
		p := &lib.ProfileDoc{Name: fmt.Sprintf("c07 many validations %d", n), Prefixes: [][2]string{{"ex", lib.EX}}}
		for i := 0; i < n; i++ {
			name := fmt.Sprintf("val-%d", i)
			p.Validations = append(p.Validations, lib.Validation{Name: name, TargetClass: "ex.T", Message: "m", Body: lib.PC1(fmt.Sprintf("ex.v%d / ex.w", i), quant(i), lib.CScalar("minCount", lib.Int(1)))})
			switch i % 3 {
			case 0:
				p.Violation = append(p.Violation, name)
			case 1:
				p.Warning = append(p.Warning, name)
			default:
				p.Info = append(p.Info, name)
			}
		}
		cases = append(cases, c07Case{fmt.Sprintf("scale/validations/%d", n), p})
	}
	for width := 2; width <= 6; width++ {
		for depth := 1; depth <= 3; depth++ {
			var build func(d int, or bool) lib.Expr
			cnt := 0
			build = func(d int, or bool) lib.Expr {
				if d == 0 {
					cnt++
					return lib.PC1(fmt.Sprintf("ex.o%d", cnt), lib.CScalar("minCount", lib.Int(1)))
				}
				var items []lib.Expr
				w := width
				if d < depth {
					w = 2
				}
				for i := 0; i < w; i++ {
					items = append(items, build(d-1, !or))
				}
				if or {
					return lib.OrE{Items: items}
				}
				return lib.AndE{Items: items}
			}
			cases = append(cases, c07Case{fmt.Sprintf("scale/or-and-width-%d-depth-%d", width, depth), c07Wrap("orand", build(depth, true))},
				c07Case{fmt.Sprintf("scale/and-or-width-%d-depth-%d", width, depth), c07Wrap("andor", build(depth, false))})
		}
	}
	// distributions of validations over the three levels: a validation under two or three levels, a level that
	// lists only validations already listed before, empty and missing levels, names listed twice
	vnames := []string{"v1", "v2", "v3"}
	lists := [][]string{nil, {}, {"v1"}, {"v2"}, {"v1", "v2"}, {"v1", "v1"}, {"v3", "v1"}}
	for vi, viol := range lists {
		for wi, warn := range lists {
			for ii, info := range lists {
				if ctx.Quick() && (vi+2*wi+3*ii)%3 != 0 {
					continue
				}
				p := &lib.ProfileDoc{Name: "c07 levels", Prefixes: [][2]string{{"ex", lib.EX}}, Violation: viol, Warning: warn, Info: info,
					HasViolation: viol != nil, HasWarning: warn != nil, HasInfo: info != nil}
				for k, n := range vnames {
					p.Validations = append(p.Validations, lib.Validation{Name: n, TargetClass: "ex.T", Message: "m", Body: lib.PC1(fmt.Sprintf("ex.l%d", k), lib.CScalar("minCount", lib.Int(1)), quant(k))})
				}
				cases = append(cases, c07Case{fmt.Sprintf("levels/v%d-w%d-i%d", vi, wi, ii), p})
			}
		}
	}
	// argument values from each constraint's documented domain that are awkward for a code generator
	sc := lib.CScalar
	var argCases []struct {
		name string
		c    lib.Constraint
	}
	addArg := func(name string, c lib.Constraint) {
		argCases = append(argCases, struct {
			name string
			c    lib.Constraint
		}{name, c})
	}
	for i, pat := range []string{"a`b", "^[`']+$", "^\\d+$", "^\"quoted\"$", "\\\\", "^(a|b)\\s*$", "%s %d %v", "$result", "$message $node", "é☃漢", "two\nlines", "{{ex.a}}", "#comment", "]})", "^$", ".*"} {
		addArg(fmt.Sprintf("pattern-%d", i), sc("pattern", lib.Str(pat)))
	}
	for i, vals := range [][]lib.YNode{
		{lib.Str("a\"b"), lib.Str("c\\d")}, {lib.Str("$message"), lib.Str("%d")}, {lib.Str("")}, {lib.Str("é☃"), lib.Str("x,y"), lib.Str("{ }")}, {lib.Int(0), lib.Int(-7), lib.Int(1000000)},
		{lib.Bool(true), lib.Bool(false)}, {lib.RawScalar("2.5"), lib.RawScalar("-0.25")}, {lib.Str("true"), lib.Str("1"), lib.Int(1)}, {lib.Str("`"), lib.Str("'"), lib.Str("#")},
	} {
		for _, key := range []string{"in", "containsAll", "containsSome"} {
			addArg(fmt.Sprintf("%s-values-%d", key, i), lib.Constraint{Key: key, Value: lib.YSeqOf(vals...)})
		}
	}
	for i, num := range []string{"0", "-5", "2.5", "-0.5", "1e3", "1.0e-3", "123456789012", "-0", "007", ".5", ".0000005", "5e-7", "-.25", "+3", "0.30000000000000004"} {
		for _, key := range []string{"minInclusive", "maxInclusive", "minExclusive", "maxExclusive"} {
			addArg(fmt.Sprintf("%s-%d", key, i), sc(key, lib.RawScalar(num)))
		}
	}
	for i, n := range []int{0, 1, 2, 100, 65536} {
		for _, key := range []string{"minCount", "maxCount", "exactCount", "minLength", "maxLength", "exactLength"} {
			addArg(fmt.Sprintf("%s-%d", key, i), sc(key, lib.Int(n)))
		}
	}
	for i, dt := range []string{"xsd.string", "xsd.integer", "xsd.float", "xsd.double", "xsd.boolean", "xsd.date", "xsd.dateTime", "xsd.anyURI", "shapes.Custom", "ex.MyType"} {
		addArg(fmt.Sprintf("datatype-%d", i), sc("datatype", lib.Str(dt)))
	}
	for _, ac := range argCases {
		atom := lib.PC1("ex.arg", ac.c)
		cases = append(cases, c07Case{"arguments/" + ac.name + "/plain", c07Wrap("args", atom)},
			c07Case{"arguments/" + ac.name + "/negated-in-nested", c07Wrap("args", lib.PC1("ex.k | ex.l^", lib.CNested(lib.NotE{Item: atom})))})
	}
	// message templates: placeholders repeated, many, over names that differ only in where `.` and `-` stand, over
	// built-in and undeclared prefixes, next to format verbs; control and non-printable characters in the text
	for i, msg := range []string{
		"{{ex.leaf}} and again {{ex.leaf}}", "{{ex.leaf}}{{ex.leaf}}{{ex.leaf}}", "{{ex.a-b}} {{ex.a_b}} {{ex.a.b}}", "{{core-name.x}} {{core.name-x}}", "{{ex.leaf}} {{ ex.leaf }} {{  ex.leaf}}",
		"{{ex.p0}} {{ex.p1}} {{ex.p2}} {{ex.p3}} {{ex.p4}} {{ex.p5}} {{ex.p6}} {{ex.p7}} {{ex.p8}} {{ex.p9}} {{ex.p10}} {{ex.p11}}", "{{core.name}} {{shapes.name}} {{raml-shapes.name}} {{apiContract.name}}",
		"100% {{ex.leaf}} %d %s %v %%", "{{ex.leaf}}%{{ex.arg}}", "{{}} {{ex}} {{ex.}} {{.leaf}} {{ex.leaf", "\x1b[31mred {{ex.leaf}}\x1b[0m", "bell \a vt \v del \x7f one \x01", "tag \U000E0001 bom \ufeff sep \u2028 {{ex.leaf}}",
	} {
		p := c07Wrap(fmt.Sprintf("message %d", i), lib.PC1("ex.arg", lib.CScalar("maxCount", lib.Int(0))))
		p.Validations[0].Message = msg
		cases = append(cases, c07Case{fmt.Sprintf("messages/%d", i), p})
		q := c07Wrap(fmt.Sprintf("message nested %d", i), lib.PC1("ex.k | ex.l^", lib.CNested(lib.PC1("ex.arg", lib.CScalar("maxCount", lib.Int(0))))))
		q.Validations[0].Message = msg
		cases = append(cases, c07Case{fmt.Sprintf("messages/nested-%d", i), q})
	}
	// connective nesting far deeper than anything else here (negation is cheap for the engine): flow-style text
	for _, d := range []int{100, 101, 1000, 3000, 4095, 4096, 4097, 5000, 8000} {
		body := strings.Repeat("{not: ", d) + "{propertyConstraints: {ex.leaf: {minCount: 1}}}" + strings.Repeat("}", d)
		cases = append(cases, c07Raw(fmt.Sprintf("scale/not-chain/%d", d),
			"profile: c07 deep negation\nprefixes:\n  ex: http://ex.org/\nviolation:\n  - v\nvalidations:\n  v:\n    targetClass: ex.T\n    message: m\n    not: "+body+"\n"))
		andBody := strings.Repeat("{and: [", d/10) + "{propertyConstraints: {ex.leaf: {minCount: 1}}}" + strings.Repeat("]}", d/10)
		cases = append(cases, c07Raw(fmt.Sprintf("scale/and-chain/%d", d/10),
			"profile: c07 deep conjunction\nprefixes:\n  ex: http://ex.org/\nviolation:\n  - v\nvalidations:\n  v:\n    targetClass: ex.T\n    message: m\n    and: ["+andBody+"]\n"))
	}
	// profile names that sanitise to the same package name
	for _, nm := range []string{"my profile", "my-profile", "MY_PROFILE", "my.profile", "my/profile/1.0", "1", "profile", "ünïcode name", "a  b", "-", "report", "data", "input", "violation"} {
		p := c07Wrap("x", leaf)
		p.Name = nm
		cases = append(cases, c07Case{"names/" + nm, p})
	}
	return cases
}

// C07: every well-formed declarative profile compiles (and the compiled policy can be evaluated).
func c07(tier string) {
	ctx := lib.NewCtx("C07", tier)
	ctx.Rule = "complete pairwise matrix: every documented constraint kind (all atoms, nested, atLeast, atMost, combinations in one mapping) x 16 path-shape classes x {plain, under not} x {top level, inside nested, inside atLeast over an alternative path, inside or/and}; negation directly above every connective and pairs of connectives; scaling sweeps (1..N quantified constraints flat / inside nested / two levels, nesting depth 1..6 (quick) / 1..8 (thorough) x width 1..3, chains of 100-8000 negations and 10-800 single-operand conjunctions, 1..N validations over three levels, and/or width 2..6 x depth 1..3, profile names sanitising to the same package); message templates (repeated / many / colliding / built-in-prefix placeholders, format verbs, control characters); distributions of validations over the three levels (a validation under two or three levels, levels listing only already-listed validations, empty / missing levels, duplicates); every fourth profile is compiled right after a profile the translator must reject; plus seeded random formula families; every profile must compile AND evaluate on a small graph; " +
		"non-trivial & distinct = distinct profile text"
	ctx.Assumptions = []string{"no embedded Rego; only documented constraints; names over [A-Za-z0-9-]; branch cross-products bounded (<= 6^3 leaves per validation)", "nesting depth bounded at 6 / 8: deeper profiles do compile (depth 10 was compiled by hand) but OPA needs ~3.5x longer per level, minutes at depth 10 - a cost, not a rejection"}
	nRandom := ctx.N(100, 3000)
	if !ctx.IsShard() {
		ctx.RunShards()
		ctx.MinDistinct = 500
		ctx.Finish()
	}
	cases := c07Cases(ctx)
	dg := c02Graph(lib.CaseRand(ctx.Seed, 7, 0))
	for k, n := range dg.OfType(lib.EX + "T") {
		// values that violate whatever the argument-value cases ask for, so that their traces are built as well
		n.Add(lib.EX+"arg", []lib.Value{lib.IntV(-1000000), lib.StrV("zz"), lib.IntV(2000000000), lib.FloatV(0.5)}[k%4])
		n.Add(lib.EX+"leaf", lib.StrV("v"))
	}
	data := dg.CanonicalJSONLD()
	// profiles the translator must REJECT (not well formed): compiled right before some well-formed ones, because
	// accepting a well-formed profile must not depend on what the process was asked to compile before
	rejected := []string{
		"profile: r1\nviolation: [v]\nvalidations:\n  v:\n    targetClass: nope.T\n    propertyConstraints:\n      nope.a:\n        minCount: 1\n",
		"profile: r2\nprefixes: {ex: \"http://ex.org/\"}\nviolation: [v]\nvalidations:\n  v:\n    targetClass: ex.T\n    propertyConstraints:\n      \"ex.a / / ex.b\":\n        minCount: 1\n",
		"profile: r3\nprefixes: {ex: \"http://ex.org/\"}\nviolation: [v]\nvalidations:\n  v:\n    targetClass: ex.T\n    propertyConstraints:\n      ex.a:\n        datatype: nope.integer\n",
		"profile: r4\nprefixes: {ex: \"http://ex.org/\"}\nviolation: [v]\nvalidations:\n  v:\n    targetClass: ex.T\n    rego: \"$result = ((\"\n",
		"profile: r5\nprefixes: {ex: \"http://ex.org/\"}\nviolation: [v, w]\nvalidations:\n  v:\n    targetClass: ex.T\n    propertyConstraints:\n      ex.a:\n        minCount: 1\n  w:\n    targetClass: ex.T\n    propertyConstraints:\n      ex.a / nope.b:\n        nested:\n          propertyConstraints:\n            ex.c:\n              minCount: 1\n",
	}
	judged := 0
	judge := func(name, ptext string) {
		judged++
		if judged%4 == 0 {
			if c := lib.Compile(rejected[(judged/4)%len(rejected)], nil); c.Failed() {
				ctx.Count("well_formed_profiles_compiled_right_after_a_rejected_one", 1)
			} else {
				ctx.Count("harness_note_rejected_profile_was_accepted", 1)
			}
		}
		ctx.Begin(name, map[string]string{"profile": ptext})
		cp := lib.Compile(ptext, nil)
		ctx.End()
		ctx.Eval(fmt.Sprintf("%x", hash(ptext)))
		ctx.Count("family:"+strings.SplitN(name, "/", 2)[0], 1)
		base := map[string]any{"profile": ptext, "data": data, "case": name}
		if cp.Failed() {
			ctx.Violation("does-not-compile", fmt.Sprintf("well-formed declarative profile %s does not compile: %s", name, clip(cp.ErrString(), 400)), base)
			return
		}
		if o := lib.ValidateCompiled(cp.Q, data); o.Failed() {
			ctx.Violation("accepted-but-unusable", fmt.Sprintf("profile %s compiles but cannot be evaluated: %s", name, clip(o.ErrString(), 400)), base)
		}
	}
	ctx.ForEach(len(cases), func(i int) {
		judge(cases[i].name, cases[i].Text())
		if i%400 == 0 {
			ctx.Sample(map[string]any{"case": cases[i].name, "profile": clip(cases[i].Text(), 600)})
		}
	})
	ctx.ForEach(nRandom, func(i int) {
		r := lib.CaseRand(ctx.Seed, 7, 1000+i)
		prof := &lib.ProfileDoc{Name: fmt.Sprintf("c07-random-%d", i), Prefixes: [][2]string{{"ex", lib.EX}}}
		for fam := 0; fam < 2; fam++ {
			w, root := lib.NewWorld(r, lib.WorldSpec{Base: fam * 1000, NAtoms: 1 + r.Intn(3), NQuants: r.Intn(4), QuantDepth: 3, MaxDepth: 4})
			name := fmt.Sprintf("fam%d", fam)
			prof.Validations = append(prof.Validations, lib.Validation{Name: name, TargetClass: "ex.T", Message: "m", Body: w.ToExpr(root, r)})
			prof.Violation = append(prof.Violation, name)
		}
		judge(fmt.Sprintf("random/%d", i), prof.Text())
	})
	ctx.FinishShard()
}
