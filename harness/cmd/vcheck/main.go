// vcheck: one sub-command per property. Usage: vcheck <ID> <quick|thorough|replay> [replay-file]
package main

import (
	"fmt"
	"os"
)

var checks = map[string]func(tier string){}

func main() {
	if len(os.Args) < 3 {
		fmt.Fprintln(os.Stderr, "usage: vcheck <ID> <quick|thorough|replay> [file]")
		os.Exit(2)
	}
	id, tier := os.Args[1], os.Args[2]
	if id == "child" {
		childMain(os.Args[2:])
		return
	}
	if tier == "replay" {
		if len(os.Args) < 4 {
			fmt.Fprintln(os.Stderr, "replay needs a file")
			os.Exit(2)
		}
		replay(id, os.Args[3])
		return
	}
	f, ok := checks[id]
	if !ok {
		fmt.Fprintf(os.Stderr, "no check for %s\n", id)
		os.Exit(2)
	}
	f(tier)
}
