package main

import (
	"bytes"
	"fmt"
	"os"
	"os/exec"
	"path/filepath"
	"strings"

	"verif/lib"

	"github.com/aml-org/amf-custom-validator/pkg/config"
)

func init() { checks["C04"] = c04 }

var c04Profiles = []string{
	"profile: p0\nprefixes:\n  ex: http://ex.org/\nviolation:\n  - v\nvalidations:\n  v:\n    targetClass: ex.T\n    message: needs a\n    propertyConstraints:\n      ex.a:\n        minCount: 1\n",
	"profile: p1\nprefixes:\n  ex: http://ex.org/\nwarning:\n  - w\nvalidations:\n  w:\n    targetClass: ex.T\n    propertyConstraints:\n      ex.a / ex.b^:\n        nested:\n          propertyConstraints:\n            ex.c:\n              pattern: ^x\n",
	"profile: p2\nviolation:\n  - v\nvalidations:\n  v:\n    targetClass: apiContract.WebAPI\n    message: name\n    propertyConstraints:\n      core.name:\n        minCount: 1\n        in: [a, b]\n",
	"profile: p3\nprefixes:\n  ex: http://ex.org/\nviolation: [v]\ninfo: [i]\nvalidations:\n  v:\n    targetClass: ex.T\n    not:\n      propertyConstraints:\n        ex.a:\n          maxCount: 0\n  i:\n    targetClass: ex.U\n    or:\n      - propertyConstraints:\n          ex.a:\n            minCount: 1\n      - propertyConstraints:\n          ex.b:\n            minCount: 1\n",
	"profile: p4\nviolation: []\nvalidations: {}\n",
}

const c04Good = `[{"@id":"http://ex.org/n","@type":["http://ex.org/T"],"http://ex.org/a":[{"@value":"v"}]}]`

// C04: for every data text from which no complete JSON value can be read, or which the JSON-LD processor rejects,
// every validating entry point must answer with an error and no report.
func c04(tier string) {
	ctx := lib.NewCtx("C04", tier)
	ctx.Rule = "texts derived from valid JSON-LD documents (generated graphs and repository fixtures): empty/whitespace, proper prefixes and proper suffixes at evenly spread cut points, a stray closing delimiter or separator in front of a whole document, UTF-16 LE/BE with/without BOM, Latin-1 bytes, single-byte corruptions, non-JSON sources (YAML/RAML/XML/profile text), and JSON documents aimed at JSON-LD error conditions (keyword type confusion); " +
		"class membership is decided by the harness (encoding/json cannot read a value; json-gold expansion fails), texts outside the class are counted and not judged; each judged text goes through pkg.Validate, ValidateWithConfiguration, CompileProfile+ValidateCompiled, ValidateCompiledWithConfiguration (same text repeatedly, good documents in between) and a sample through `acv validate`; " +
		"non-trivial & distinct = distinct judged text"
	ctx.Assumptions = []string{
		"a text with a complete leading JSON value followed by junk is readable (Decoder semantics) and is not in the class",
		"json-gold v0.4.0 (the project's JSON-LD processor, run here independently) defines `JSON-LD processing rejects it`",
	}
	if !ctx.IsShard() {
		ctx.RunShards()
		if ctx.Counter("class_unreadable_json") < 50 || ctx.Counter("class_jsonld_rejected") < 20 {
			ctx.Inconclusive("too few texts in one of the two classes")
		}
		ctx.MinDistinct = 100
		ctx.Finish()
	}
	r := lib.CaseRand(ctx.Seed, 5, 0)
	fx := lib.LoadFixtures(ctx.N(40, 200), 3)
	valid := append([]string{}, fx.Data...)
	for k := 0; k < ctx.N(6, 40); k++ {
		rr := lib.CaseRand(ctx.Seed, 5, 1000+k)
		valid = append(valid, c02Graph(rr).CanonicalJSONLD())
	}
	texts := lib.UnreadableTexts(r, valid, fx.NonJSON, fx.Profiles, ctx.N(16, 64))
	texts = append(texts, lib.JSONLDRejectCandidates(r, valid)...)
	// dedupe, keep order
	seen := map[string]bool{}
	var uniq []string
	for _, t := range texts {
		if !seen[t] && len(t) < 64*1024 {
			seen[t] = true
			uniq = append(uniq, t)
		}
	}
	// documents of 64 KiB - 1.1 MiB damaged without a change of length (a byte overwritten in the tail, the middle or the
	// head): each is judged right after its intact twin was validated by the same process
	origin := map[string]string{}
	for k, size := range []int{64 << 10, 66 << 10, 130 << 10, 260 << 10, 1100 << 10}[:ctx.N(4, 5)] {
		rr := lib.CaseRand(ctx.Seed, 5, 3000+k)
		big := c18BulkData(c02Graph(rr), size)
		for j, at := range []int{len(big) - 2 - rr.Intn(200), len(big) - len(big)/4 + rr.Intn(1000), len(big) / 2, 70<<10 + rr.Intn(100), 1 + rr.Intn(40)} {
			if at <= 0 || at >= len(big) {
				continue
			}
			b := []byte(big)
			b[at] = []byte{0x00, '}', '"', 0x1f, '\\'}[(j+k)%5]
			if t := string(b); t != big && !seen[t] {
				seen[t] = true
				origin[t] = big
				uniq = append(uniq, t)
			}
		}
	}
	compiled := make([]lib.Compiled, len(c04Profiles))
	for i, p := range c04Profiles {
		compiled[i] = lib.Compile(p, nil)
		if compiled[i].Failed() {
			ctx.Inconclusive("reference profile does not compile: " + compiled[i].ErrString())
			ctx.FinishShard()
		}
	}
	acv := os.Getenv("VERIF_ACV")
	tmp := lib.TempDir("c04")
	defer os.RemoveAll(tmp)
	ctx.ForEach(len(uniq), func(i int) {
		text := uniq[i]
		class := ""
		v, readable := lib.ReadableJSON(text)
		if !readable {
			class = "unreadable-json"
		} else if lib.JSONLDRejects(v) {
			class = "jsonld-rejected"
		}
		if class == "" {
			ctx.Count("texts_outside_class_not_judged", 1)
			return
		}
		ctx.Count("class_"+strings.ReplaceAll(class, "-", "_"), 1)
		ctx.Eval(fmt.Sprintf("%x", hash(text)))
		pi := i % len(c04Profiles)
		ptext := c04Profiles[pi]
		ctx.Begin(fmt.Sprintf("text %d", i), map[string]string{"profile": ptext, "data": text})
		judge := func(entry string, o lib.Outcome) {
			ctx.Count("calls", 1)
			if o.Panic != nil {
				ctx.Violation("panic", fmt.Sprintf("%s panicked on %s data %q: %v", entry, class, clip(text, 80), o.Panic), map[string]any{"profile": ptext, "data": text, "entry": entry, "stack": o.Stack})
				return
			}
			if o.Err == nil || o.Report != "" {
				conf := ""
				if rep, err := lib.ParseReport(o.Report); err == nil {
					conf = fmt.Sprintf(" (report says conforms=%v, %d results)", rep.Conforms, len(rep.Results))
				}
				ctx.Violation("verdict-for-unreadable-data", fmt.Sprintf("%s returned err=%v and a %d-byte report%s for %s data %q", entry, o.Err, len(o.Report), conf, class, clip(text, 80)),
					map[string]any{"profile": ptext, "data": text, "entry": entry, "class": class})
			}
		}
		// a good document first, then the same unreadable text through every entry point, twice in a row
		good := c04Good
		if o, ok := origin[text]; ok {
			good = o // the intact document this text was made from
			ctx.Count("large_texts_judged_after_their_intact_twin", 1)
		}
		if g := lib.ValidateCompiled(compiled[pi].Q, good); g.Failed() {
			ctx.Violation("good-document-failed", "reference document failed: "+g.ErrString(), map[string]any{"profile": ptext, "data": good})
		}
		judge("ValidateCompiledWithConfiguration", lib.ValidateCompiledCfg(compiled[pi].Q, text, nil, lib.Epoch2000, config.DefaultReportConfiguration()))
		judge("ValidateCompiledWithConfiguration(again)", lib.ValidateCompiledCfg(compiled[pi].Q, text, nil, lib.Epoch2000, config.DefaultReportConfiguration()))
		judge("ValidateCompiled", lib.ValidateCompiledDefault(compiled[pi].Q, text, nil))
		judge("ValidateWithConfiguration", lib.Validate(ptext, text))
		judge("Validate", lib.ValidateDefault(c04Profiles[(pi+1)%len(c04Profiles)], text, nil))
		if cp := lib.Compile(ptext, nil); !cp.Failed() {
			judge("CompileProfile+ValidateCompiled", lib.ValidateCompiled(cp.Q, text))
		}
		ctx.End()
		if acv != "" && i%8 == 0 && !strings.Contains(text, "\x00") {
			pf, df := filepath.Join(tmp, "p.yaml"), filepath.Join(tmp, "d.jsonld")
			_ = os.WriteFile(pf, []byte(ptext), 0o644)
			_ = os.WriteFile(df, []byte(text), 0o644)
			cmd := exec.Command(acv, "validate", pf, df)
			var so, se bytes.Buffer
			cmd.Stdout, cmd.Stderr = &so, &se
			err := cmd.Run()
			ctx.Count("cli_invocations", 1)
			if err == nil || strings.TrimSpace(so.String()) != "" {
				ctx.Violation("cli-verdict-for-unreadable-data", fmt.Sprintf("acv validate exit ok=%v stdout %d bytes for %s data %q", err == nil, so.Len(), class, clip(text, 80)),
					map[string]any{"profile": ptext, "data": text, "stdout": clip(so.String(), 400)})
			}
		}
		if i%97 == 0 {
			ctx.Sample(map[string]any{"class": class, "text": clip(text, 160)})
		}
	})
	ctx.FinishShard()
}

func clip(s string, n int) string {
	if len(s) > n {
		return s[:n] + "…"
	}
	return s
}

func hash(s string) uint64 {
	var h uint64 = 1469598103934665603
	for i := 0; i < len(s); i++ {
		h ^= uint64(s[i])
		h *= 1099511628211
	}
	return h
}
