package main

import (
	"fmt"
	"os"
	"os/exec"
	"path/filepath"
	"strings"
	"time"

	"verif/lib"

	"github.com/aml-org/amf-custom-validator/pkg/config"
)

func init() { checks["C09"] = c09 }

// c09Clocks: the caller's clock varies from step to step: one instant in two time zones, the zero instant, another instant.
var c09Clocks = []lib.FixedClock{lib.Epoch2000, {T: lib.Epoch2000.T.In(time.FixedZone("", 2*3600))}, {T: time.Time{}}, {T: time.Date(2021, time.March, 14, 9, 26, 53, 0, time.FixedZone("", 5*3600+1800))},
	{T: lib.Epoch2000.T.In(time.FixedZone("", -5*3600))}}

func c09HugeDoc(n int) string {
	g := lib.NewGraph()
	for i := 0; i < n; i++ {
		nd := g.AddNode(fmt.Sprintf("%shuge%d", lib.EX, i), lib.EX+"T", lib.EX+"U")
		nd.Add(lib.EX+"tags", lib.StrV("trace"), lib.StrV("patch"), lib.StrV("head"))
		nd.Add(lib.EX+"num", lib.IntV(100))
	}
	return g.CanonicalJSONLD()
}

// C09: one compiled profile, any sequence of documents: each report equals what a fresh, independent validation
// of that document produces. References come from FRESH PROCESSES (one per profile/document), so state leaking
// between calls of one process cannot corrupt both sides of the comparison.
func c09(tier string) {
	ctx := lib.NewCtx("C09", tier)
	ctx.HangIsViolation = true
	ctx.Rule = "profiles (all constraint families, nested sub-results, source-map locations, a 36-validation profile) x histories of 6-40 documents through ONE compiled profile: repeats, failing-then-passing, documents with lexical maps after documents without, malformed JSON, JSON-LD rejections, a >1 MiB report, and calls made to fail in the middle by the verif fault hook (error and panic at evaluate / build_report / normalize); each operation's report bytes and error-ness are compared with a fresh process's ValidateWithConfiguration of the profile TEXT on the same document; reports returned earlier are re-read at the end of the history; " +
		"non-trivial & distinct = (profile, history position) whose document has results and follows a different document"
	ctx.Assumptions = []string{"fixed clock and default report configuration on both sides", "the reference process is the same harness binary (mode `child report`), started once per (profile, document)"}
	nHist := ctx.N(160, 2400)
	if !ctx.IsShard() {
		// references are recomputed from the current tree on every run
		_ = os.RemoveAll(filepath.Join(lib.OutRoot(), "out", "c09-ref"))
		ctx.RunShards()
		ctx.MinDistinct = 50
		if ctx.Counter("injected_faults") == 0 {
			ctx.Inconclusive("fault hook never fired (is the harness built with -tags verif?)")
		}
		ctx.Finish()
	}
	self := os.Getenv("VERIF_SELF")
	if self == "" {
		ctx.Inconclusive("VERIF_SELF not set (run through ./check)")
		ctx.FinishShard()
	}
	tmp := lib.TempDir("c09")
	defer os.RemoveAll(tmp)
	// profiles
	type pdef struct {
		text string
		docs []string
	}
	var defs []pdef
	rr := lib.CaseRand(ctx.Seed, 9, 0)
	var c05docs []string
	for k := 0; k < 6; k++ {
		g := c05Graph(lib.CaseRand(ctx.Seed, 9, 100+k))
		c05docs = append(c05docs, g.CanonicalJSONLD())
		if k%2 == 0 {
			c05docs = append(c05docs, lib.DecorateWithSourceMaps(g, rr).Text)
			if k == 2 {
				c05docs = append(c05docs, lib.StripSourceInformation(lib.DecorateWithSourceMaps(g, rr).Text)) // source maps, no file information
			}
			t, _ := g.Variant(rr)
			c05docs = append(c05docs, t)
		}
	}
	// whatever the source path makes of an unusual text, the compiled path must make the same of it
	common := []string{"{}", "[]", c04Good, "{\"@graph\":", "", "not json at all", `{"@context": 5}`, `{"@id": 5}`,
		"\ufeff" + c04Good, "  \r\n\t" + c04Good + "\r\n", c04Good + " trailing junk", c04Good + c04Good, "\ufeff", "\x00" + c04Good,
		// documents answered with an error from deep inside the normalizer (broken source maps)
		strings.Replace(lib.SourceMapDoc(), `"http://a.ml/vocabularies/document-source-maps#element":[{"@value":"http://ex.org/n1"}],`, "", 1),
		strings.Replace(lib.SourceMapDoc(), `,"http://a.ml/vocabularies/document-source-maps#value":[{"@value":"[(7,2)-(9,4)]"}]`, "", 1)}
	// the same kinds of unusual text at the size of a real model (several KiB: more than one read of the decoder is left
	// unread behind an early error, and a long tail follows a complete value); placed before the two broken source maps
	{
		big := lib.DecorateWithSourceMaps(c05Graph(lib.CaseRand(ctx.Seed, 9, 400)), rr).Text
		for len(big) < 6000 {
			big = "  " + big + "\n"
		}
		large := []string{"\x00" + big, big[:1] + "!" + big[1:], big[:len(big)/3] + "\x01" + big[len(big)/3:], big[:len(big)/2], big + " " + big,
			strings.Repeat(" \n", 1500) + big, big + strings.Repeat("]", 3000)}
		ctx.Count("large_unusual_documents_in_the_pool", len(large))
		common = append(common[:len(common)-2:len(common)-2], append(large, common[len(common)-2:]...)...)
	}
	nCommon := len(common)
	for _, p := range c05Profiles() {
		defs = append(defs, pdef{p.Text(), append(append([]string{}, c05docs...), common...)})
	}
	defs[1].docs = append(defs[1].docs, c09HugeDoc(1500)) // "sets" profile: > 1 MiB report
	wp, wg := c10WideProfile()
	defs = append(defs, pdef{wp.Text(), append([]string{wg.CanonicalJSONLD()}, append(c05docs[:3], common...)...)})
	g14 := c02Graph(lib.CaseRand(ctx.Seed, 9, 50))
	defs = append(defs, pdef{c14Profile().Text(), append([]string{g14.CanonicalJSONLD(), lib.DecorateWithSourceMaps(g14, rr).Text, lib.DecorateWithSourceMaps(g14, rr).Text,
		lib.StripSourceInformation(lib.DecorateWithSourceMaps(g14, rr).Text), lib.StripSourceInformation(lib.SourceMapDoc())}, common...)})
	for k := 0; k < 4; k++ {
		p, g := c06Profile(lib.CaseRand(ctx.Seed, 9, 200+k), k)
		defs = append(defs, pdef{p.Text(), append([]string{g.CanonicalJSONLD(), lib.DecorateWithSourceMaps(g, rr).Text}, append(c05docs[:2], common...)...)})
	}
	// fresh-process references, cached on disk per (profile, doc) across workers of this run
	refDir := filepath.Join(lib.OutRoot(), "out", "c09-ref", fmt.Sprintf("seed%d", ctx.Seed))
	_ = os.MkdirAll(refDir, 0o755)
	// documents whose context is a file of its own: one that is there, one that is missing (the same files for the
	// workers and the fresh reference processes)
	{
		gk := c05Graph(lib.CaseRand(ctx.Seed, 9, 300))
		ctxFile := filepath.Join(refDir, "context.jsonld")
		okDoc, ctxText := gk.ContextByReference(ctxFile, "reference")
		impDoc, _ := gk.ContextByReference(ctxFile, "import")
		missingDoc, _ := gk.ContextByReference(filepath.Join(refDir, "no-such-context.jsonld"), "reference")
		tmpf := ctxFile + fmt.Sprintf(".%d", os.Getpid())
		_ = os.WriteFile(tmpf, []byte(ctxText), 0o644)
		_ = os.Rename(tmpf, ctxFile)
		for k := range defs {
			defs[k].docs = append(defs[k].docs, okDoc, missingDoc, impDoc, missingDoc)
		}
	}
	cfgs := []config.ReportConfiguration{config.DefaultReportConfiguration(), {IncludeReportCreationTime: false}, {IncludeReportCreationTime: true, ReportSchemaIri: "urn:custom:report", LexicalSchemaIri: ""},
		{IncludeReportCreationTime: false, ReportSchemaIri: "", LexicalSchemaIri: "http://lexical.example/schema"}}
	cfgArg := func(ci, ki int) string {
		c := cfgs[ci]
		inc := "0"
		if c.IncludeReportCreationTime {
			inc = "1"
		}
		return inc + "|" + c.ReportSchemaIri + "|" + c.LexicalSchemaIri + "|" + fmt.Sprint(ki)
	}
	fresh := func(pi, di, ci, ki int) (string, bool) {
		key := filepath.Join(refDir, fmt.Sprintf("%x-%x-%d-%d.ref", hash(defs[pi].text), hash(defs[pi].docs[di]), ci, ki))
		if b, err := os.ReadFile(key); err == nil {
			return string(b), true
		}
		pf, df := filepath.Join(tmp, "p.yaml"), filepath.Join(tmp, "d.jsonld")
		_ = os.WriteFile(pf, []byte(defs[pi].text), 0o644)
		_ = os.WriteFile(df, []byte(defs[pi].docs[di]), 0o644)
		cmd := exec.Command(self, "child", "report", pf, df)
		cmd.Env = append(os.Environ(), "VERIF_CHILD_CFG="+cfgArg(ci, ki))
		out, err := cmd.Output()
		if err != nil {
			return "", false
		}
		ctx.Count("fresh_reference_processes", 1)
		tmpf := key + fmt.Sprintf(".%d", os.Getpid())
		_ = os.WriteFile(tmpf, out, 0o644)
		_ = os.Rename(tmpf, key)
		return string(out), true
	}
	faults := []string{"evaluate:error", "evaluate:panic", "build_report:error", "build_report:panic", "normalize:error", "normalize:panic", "input_parse:error"}
	ctx.ForEach(nHist, func(h int) {
		r := lib.CaseRand(ctx.Seed, 9, 1000+h)
		pi := h % len(defs)
		def := defs[pi]
		ctx.Begin(fmt.Sprintf("history %d: compilation", h), map[string]string{"profile": def.text})
		cp := lib.Compile(def.text, nil)
		ctx.End()
		if cp.Failed() {
			ctx.Eval("")
			ctx.Violation("call-failed", "profile does not compile: "+cp.ErrString(), map[string]any{"profile": def.text})
			return
		}
		length := 6 + r.Intn(ctx.N(14, 35))
		type step struct {
			di           int
			report, copy string
		}
		var steps []step
		burstLeft, burstDoc, burstAt := 0, 0, -1
		if r.Intn(6) == 0 {
			burstAt = r.Intn(3)
			var unusual, broken []int
			for di, d := range def.docs {
				for ci, c := range common {
					if d == c {
						unusual = append(unusual, di)
						if ci >= nCommon-2 {
							broken = append(broken, di) // the broken source maps
						}
					}
				}
			}
			burstDoc = unusual[r.Intn(len(unusual))] // one of the unusual texts, mostly failing ones
			if r.Intn(2) == 0 && len(broken) > 0 {
				burstDoc = broken[r.Intn(len(broken))]
			}
			length += 40
			ctx.Count("histories_with_a_failure_burst", 1)
		}
		prev := -1
		var trace []string
		for s := 0; s < length; s++ {
			if s == burstAt {
				burstLeft = 12 + r.Intn(29)
			}
			di := r.Intn(len(def.docs))
			if burstLeft > 0 {
				// a run of calls that fail in the same way (every sixth history has one of 12-40 calls)
				burstLeft--
				di = burstDoc
			}
			switch r.Intn(6) {
			case 0:
				if prev >= 0 {
					di = prev // repeat
				}
			case 1:
				di = r.Intn(min(3, len(def.docs))) // the profile's own failing documents
			}
			fault := ""
			if r.Intn(9) == 0 {
				fault = faults[r.Intn(len(faults))]
				os.Setenv("ACV_VERIF_FAULT", fault)
			}
			ci := 0
			if r.Intn(4) == 0 {
				ci = r.Intn(len(cfgs)) // partial and custom report configurations, interleaved
				ctx.Count("steps_under_non_default_report_configuration", 1)
			}
			ctx.Begin(fmt.Sprintf("history %d step %d after %s", h, s, strings.Join(trace, " ")), map[string]string{"profile": def.text, "data": def.docs[di]})
			ki := 0
			if r.Intn(3) == 0 {
				ki = r.Intn(len(c09Clocks)) // the same instant in another zone right after it in UTC, the zero instant ...
				ctx.Count("steps_under_another_clock", 1)
			}
			o := lib.ValidateCompiledCfg(cp.Q, def.docs[di], nil, c09Clocks[ki], cfgs[ci])
			ctx.End()
			if fault != "" {
				os.Unsetenv("ACV_VERIF_FAULT")
				ctx.Count("injected_faults", 1)
				trace = append(trace, fmt.Sprintf("d%d[%s]", di, fault))
				if !o.Failed() && !strings.HasPrefix(fault, "input_parse") && !strings.HasPrefix(fault, "normalize") {
					// evaluate / build_report faults must make the call fail (input stages may have failed earlier on bad documents)
					ctx.Violation("fault-ignored", fmt.Sprintf("a call with injected fault %s returned a report", fault), map[string]any{"profile": def.text, "data": def.docs[di]})
				}
				prev = di
				continue
			}
			trace = append(trace, fmt.Sprintf("d%d", di))
			want, ok := fresh(pi, di, ci, ki)
			if !ok {
				ctx.Inconclusive("reference process failed")
				return
			}
			got := o.Report
			if o.Failed() {
				got = "ERROR: " + o.ErrString()
			}
			key := ""
			if !o.Failed() && prev != di && strings.Contains(o.Report, "\"result\"") {
				key = fmt.Sprintf("%d/%d/%d", h, s, di)
			}
			ctx.Eval(key)
			wantErr, gotErr := strings.HasPrefix(want, "ERROR: "), o.Failed()
			if wantErr != gotErr || (!gotErr && got != want) {
				ctx.Violation("differs-from-fresh-validation", fmt.Sprintf("history %s of profile %d: step %d (document %d) returned %s; a fresh independent validation returns %s", strings.Join(trace, " "), pi, s, di, describe(got), describe(want)),
					map[string]any{"profile": def.text, "data": def.docs[di], "history": trace, "got": clip(got, 2000), "fresh": clip(want, 2000)})
			}
			if !o.Failed() {
				steps = append(steps, step{di, o.Report, strings.Clone(o.Report)})
				if len(o.Report) > 1<<20 {
					ctx.Count("reports_over_1MiB", 1)
				}
			}
			prev = di
		}
		ctx.Count("histories", 1)
		ctx.Count("history_steps", length)
		// reports returned earlier are still what they were
		for _, st := range steps {
			if st.report != st.copy {
				ctx.Violation("report-changed-after-return", "a report returned earlier in the history changed afterwards", map[string]any{"profile": def.text, "data": def.docs[st.di]})
				break
			}
		}
		// the profile text, validated in this same process after the history, gives the fresh result as well
		di := r.Intn(len(def.docs))
		if want, ok := fresh(pi, di, 0, 0); ok {
			ctx.Begin(fmt.Sprintf("history %d: profile text after %s", h, strings.Join(trace, " ")), map[string]string{"profile": def.text, "data": def.docs[di]})
			o := lib.Validate(def.text, def.docs[di])
			ctx.End()
			got := o.Report
			if o.Failed() {
				got = "ERROR"
			}
			if strings.HasPrefix(want, "ERROR: ") != o.Failed() || (!o.Failed() && got != want) {
				ctx.Violation("source-differs-from-fresh-validation", fmt.Sprintf("after history %s: validating the profile text on document %d returns %s, a fresh process %s", strings.Join(trace, " "), di, describe(got), describe(want)),
					map[string]any{"profile": def.text, "data": def.docs[di], "history": trace})
			}
		}
		if h < 3 {
			ctx.Sample(map[string]any{"profile": pi, "history": trace})
		}
	})
	ctx.FinishShard()
}

func describe(s string) string {
	if strings.HasPrefix(s, "ERROR") {
		return clip(s, 80)
	}
	return fmt.Sprintf("a %d-byte report (sha %s)", len(s), sha(s)[:10])
}
