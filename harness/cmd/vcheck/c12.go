package main

import (
	"fmt"
	"math/rand"
	"strings"

	"verif/lib"
)

func init() { checks["C12"] = c12 }

// c12LevelsCase: many results on all three levels at once (ids violation_1 vs violation_10 vs violation_1_0 ...).
func c12LevelsCase(r *rand.Rand, i int) (*lib.ProfileDoc, *lib.Graph) {
	g := lib.NewGraph()
	n := 11 + r.Intn(8)
	for k := 0; k < n; k++ {
		node := g.AddNode(fmt.Sprintf("%st%d", lib.EX, k), lib.EX+"T")
		// children for nested sub-results
		for c := 0; c < 1+r.Intn(3); c++ {
			ch := g.AddNode(fmt.Sprintf("%st%d_c%d", lib.EX, k, c), lib.EX+"C")
			node.Add(lib.EX+"child", lib.RefV(ch.ID))
			for gc := 0; gc < r.Intn(3); gc++ {
				gch := g.AddNode(fmt.Sprintf("%st%d_c%d_g%d", lib.EX, k, c, gc), lib.EX+"G")
				ch.Add(lib.EX+"child", lib.RefV(gch.ID))
			}
		}
	}
	p := &lib.ProfileDoc{Name: fmt.Sprintf("c12-levels-%d", i), Prefixes: [][2]string{{"ex", lib.EX}}}
	deep := lib.PC1("ex.child", lib.CNested(lib.PC{Entries: []lib.PCEntry{
		{Path: "ex.x", Constraints: []lib.Constraint{lib.CScalar("minCount", lib.Int(1))}},
		{Path: "ex.child", Constraints: []lib.Constraint{lib.CNested(lib.PC{Entries: []lib.PCEntry{
			{Path: "ex.y", Constraints: []lib.Constraint{lib.CScalar("minCount", lib.Int(1))}},
			{Path: "ex.z", Constraints: []lib.Constraint{lib.CScalar("minCount", lib.Int(1))}},
		}})}},
	}}))
	multi := lib.OrE{Items: []lib.Expr{
		lib.PC1("ex.p", lib.CScalar("minCount", lib.Int(1))),
		lib.PC1("ex.q", lib.CScalar("minCount", lib.Int(1))),
		lib.PC1("ex.r", lib.CScalar("pattern", lib.Str("^z"))),
		lib.PC1("ex.child", lib.CAtLeast(9, lib.PC1("ex.x", lib.CScalar("minCount", lib.Int(1))))),
	}}
	bodies := []lib.Expr{deep, multi, lib.PC1("ex.missing", lib.CScalar("minCount", lib.Int(1)))}
	for li, lvl := range []string{"violation", "warning", "info"} {
		for k := 0; k < 1+r.Intn(3); k++ {
			name := fmt.Sprintf("%s%d", lvl[:1], k)
			p.Validations = append(p.Validations, lib.Validation{Name: name, TargetClass: "ex.T", Message: "msg " + name, Body: bodies[(li+k)%len(bodies)]})
			switch lvl {
			case "violation":
				p.Violation = append(p.Violation, name)
			case "warning":
				p.Warning = append(p.Warning, name)
			default:
				p.Info = append(p.Info, name)
			}
		}
	}
	return p, g
}

// C12: every report is one well-formed document: unique @ids at any depth, typed nodes have ids, results name
// exactly one focus node of the input graph, a defined validation (or `nested` in sub-results), a non-empty
// message and a non-empty trace with component and path.
func c12(tier string) {
	ctx := lib.NewCtx("C12", tier)
	ctx.Rule = "reports produced by the real pipeline for (a) random formula families with quantifier depth<=3 (sub-results inside sub-results), (b) profiles firing >=11 results on each of the three levels at once with several traces per result and nested depth 3, (c) random path probes over cyclic graphs, (d) chains of 4-9 nested constraints failing at the innermost level (typed nodes more than 16 levels deep), (e) data decorated with lexical source maps (location nodes on results, traces and sub-results); every report is walked once by a structural checker that knows the input graph's ids and the profile's validation names; reports are also re-read after later validations in the same process; " +
		"non-trivial & distinct = report with at least one result carrying sub-results or several traces"
	ctx.Assumptions = []string{"declarative profiles only (embedded Rego may set trace nodes and messages freely)", "messages written in the profile are non-empty"}
	n := ctx.N(260, 4000)
	if !ctx.IsShard() {
		ctx.RunShards()
		ctx.MinDistinct = 40
		if ctx.Counter("sum_over_workers_of_max_typed_nodes_in_one_report") == 0 {
			ctx.Inconclusive("no report inspected")
		}
		ctx.Finish()
	}
	type kept struct{ orig, clone string }
	var retained []kept
	maxTyped := 0
	ctx.ForEach(n, func(i int) {
		r := lib.CaseRand(ctx.Seed, 12, i)
		var prof *lib.ProfileDoc
		var g *lib.Graph
		kind := (i/16 + i) % 5 // varies inside every worker (workers take i = k mod 16)
		if i%23 == 7 {
			kind = 5 // more results in one level than any batch or buffer size one would pick
		}
		if i%11 == 4 {
			kind = 6 // value constraints over inverse steps: the reported value is a whole node of the input
		}
		switch kind {
		case 5:
			nT := []int{1023, 1024, 1025, 1100, 2049, 2500}[(i/23)%6]
			g = lib.NewGraph()
			for k := 0; k < nT; k++ {
				nd := g.AddNode(fmt.Sprintf("%smany%d", lib.EX, k), lib.EX+"T")
				nd.Add(lib.EX+"x", lib.IntV(int64(k)))
			}
			prof = &lib.ProfileDoc{Name: fmt.Sprintf("c12-many-%d", i), Prefixes: [][2]string{{"ex", lib.EX}}, Violation: []string{"many"}, Warning: []string{"few"},
				Validations: []lib.Validation{{Name: "many", TargetClass: "ex.T", Message: "many", Body: lib.PC1("ex.missing", lib.CScalar("minCount", lib.Int(1)))},
					{Name: "few", TargetClass: "ex.T", Message: "few", Body: lib.PC1("ex.x", lib.CScalar("minInclusive", lib.Int(3)))}}}
			ctx.Mark("results_in_one_level", fmt.Sprint(nT))
		case 6:
			g = lib.NewGraph()
			whole := g.AddNode(lib.EX+"assembly", lib.EX+"Assembly")
			whole.Add(lib.EX+"label", lib.StrV("a"))
			nParts := 1 + r.Intn(4)
			for k := 0; k < nParts; k++ {
				pt := g.AddNode(fmt.Sprintf("%spart%d", lib.EX, k), lib.EX+"T")
				whole.Add(lib.EX+"part", lib.RefV(pt.ID))
				if r.Intn(2) == 0 {
					pt.Add(lib.EX+"sibling", lib.RefV(fmt.Sprintf("%spart%d", lib.EX, (k+1)%nParts)))
				}
			}
			vc := []lib.Constraint{lib.CScalar("datatype", lib.Str("xsd.string")), lib.CScalar("pattern", lib.Str("^zzz")), lib.CScalar("minInclusive", lib.Int(5)), lib.CList("in", "u", "v"), lib.CScalar("minLength", lib.Int(3))}
			prof = &lib.ProfileDoc{Name: fmt.Sprintf("c12-inverse-values-%d", i), Prefixes: [][2]string{{"ex", lib.EX}}}
			for k, pth := range []string{"ex.part^", "ex.sibling^ | ex.part^", "ex.part^ / ex.part", "ex.sibling"} {
				name := fmt.Sprintf("inv%d", k)
				prof.Validations = append(prof.Validations, lib.Validation{Name: name, TargetClass: "ex.T", Message: "value over " + pth, Body: lib.PC1(pth, vc[(k+i)%len(vc)])})
				prof.Violation = append(prof.Violation, name)
			}
		case 4:
			// a chain of 4..9 nested constraints failing at the innermost level: typed nodes 3 levels per nesting
			depth := 4 + r.Intn(6)
			g = lib.NewGraph()
			prev := g.AddNode(lib.EX+"chain0", lib.EX+"T")
			for d := 1; d <= depth; d++ {
				for w := 0; w < 1+r.Intn(2); w++ {
					n := g.AddNode(fmt.Sprintf("%schain%d_%d", lib.EX, d, w), lib.EX+"C")
					prev.Add(lib.EX+"next", lib.RefV(n.ID))
				}
				prev = g.Node(fmt.Sprintf("%schain%d_0", lib.EX, d))
			}
			var body lib.Expr = lib.PC1("ex.nothing", lib.CScalar("minCount", lib.Int(1)))
			for d := 0; d < depth; d++ {
				body = lib.PC1("ex.next", lib.CNested(body))
			}
			prof = &lib.ProfileDoc{Name: fmt.Sprintf("c12-chain-%d", i), Prefixes: [][2]string{{"ex", lib.EX}}, Violation: []string{"chain"},
				Validations: []lib.Validation{{Name: "chain", TargetClass: "ex.T", Message: "deep chain", Body: body}}}
			ctx.Mark("chain_depths", fmt.Sprint(depth))
		case 0:
			prof, g = c12LevelsCase(r, i)
		case 1, 3:
			prof = &lib.ProfileDoc{Name: fmt.Sprintf("c12-%d", i), Prefixes: [][2]string{{"ex", lib.EX}}}
			g = lib.NewGraph()
			for fam := 0; fam < 2; fam++ {
				w, root := lib.NewWorld(r, lib.WorldSpec{Base: fam * 1000, NAtoms: 1 + r.Intn(2), NQuants: 1 + r.Intn(2), QuantDepth: 3, MaxDepth: 3})
				for _, nd := range w.G.Nodes {
					nn := g.AddNode(nd.ID, nd.Types...)
					nn.Props = nd.Props
				}
				name := fmt.Sprintf("fam%d", fam)
				prof.Validations = append(prof.Validations, lib.Validation{Name: name, TargetClass: fmt.Sprintf("ex.T%d", fam*1000), Message: "formula " + name, Body: w.ToExpr(root, r)})
				switch r.Intn(3) {
				case 0:
					prof.Violation = append(prof.Violation, name)
				case 1:
					prof.Warning = append(prof.Warning, name)
				default:
					prof.Info = append(prof.Info, name)
				}
			}
		case 2:
			g = c02Graph(r)
			prof = &lib.ProfileDoc{Name: fmt.Sprintf("c12-paths-%d", i), Prefixes: [][2]string{{"ex", lib.EX}}}
			for k := 0; k < 3; k++ {
				path := lib.PrintPath(genPath(r, 1+r.Intn(2), false))
				name := fmt.Sprintf("path%d", k)
				prof.Validations = append(prof.Validations, lib.Validation{Name: name, TargetClass: "ex.T", Message: "path " + name,
					Body: lib.PC{Entries: []lib.PCEntry{{Path: path, Constraints: []lib.Constraint{lib.CScalar("maxCount", lib.Int(0)), lib.CNested(lib.PC1("ex.nothing", lib.CScalar("minCount", lib.Int(1))))}}}}})
				prof.Violation = append(prof.Violation, name)
			}
		}
		// validations whose `message` key carries no text (absent, null, a list, a map): a result still has a message
		for vi := range prof.Validations {
			switch r.Intn(12) {
			case 0:
				prof.Validations[vi].Message = ""
			case 1:
				prof.Validations[vi].MessageRaw = lib.RawScalar("null")
			case 2:
				prof.Validations[vi].MessageRaw = lib.RawScalar("~")
			case 3:
				prof.Validations[vi].MessageRaw = lib.StrSeq("a", "b")
			case 4:
				prof.Validations[vi].MessageRaw = lib.NewYMap().Set("text", lib.Str("x"))
			case 5:
				prof.Validations[vi].MessageRaw = lib.Int(404)
			case 6, 7:
				// text that is awkward for whoever encodes the report: markup, text that looks like a JSON escape, control
				// characters, separators, a long run
				prof.Validations[vi].Message = pick(r, "<b>bold</b> & more", `looks like an escape: \u003c \u003e \u0026 \u0000 \n \" \\`, "ctl \x01\x1f\x7f sep \u2028\u2029 nbsp\u00a0", `"quoted" 'single' back\slash`,
					strings.Repeat("<&>\\u003c", 2000), "emoji 😀 tag \U000E0001 é☃漢")
				ctx.Count("validations_with_text_awkward_for_the_encoder", 1)
				continue
			default:
				continue
			}
			ctx.Count("validations_without_message_text", 1)
		}
		dtext := g.CanonicalJSONLD()
		if kind == 3 {
			dtext = lib.DecorateWithSourceMaps(g, r).Text
		}
		ptext := prof.Text()
		o := lib.Validate(ptext, dtext)
		base := map[string]any{"profile": ptext, "data": dtext}
		if o.Failed() {
			ctx.Eval("")
			ctx.Violation("call-failed", "declarative profile could not be validated: "+o.ErrString(), base)
			return
		}
		rep, err := lib.ParseReport(o.Report)
		if err != nil {
			ctx.Eval("")
			ctx.Violation("not-a-report", err.Error(), base)
			return
		}
		ids := map[string]bool{}
		for _, nd := range g.Nodes {
			ids[nd.ID] = true
		}
		defects := lib.CheckWellFormed(rep, lib.WFInput{NodeIDs: ids, Validations: prof.ValidationNames()})
		typed, depth := lib.CountTypedNodes(rep)
		if typed > maxTyped {
			maxTyped = typed
		}
		ctx.Count("typed_nodes_checked", typed)
		ctx.Count("results_checked", len(rep.Results))
		ctx.Mark("typed_node_nesting_depths", fmt.Sprint(depth))
		key := ""
		rich, withLoc := false, false
		for _, res := range rep.Results {
			if tr, ok := res.Raw["trace"].([]any); ok {
				if len(tr) >= 2 {
					rich = true
				}
				for _, t := range tr {
					if tm, ok := t.(map[string]any); ok {
						if tv, ok := tm["traceValue"].(map[string]any); ok {
							if subs, ok := tv["subResult"].([]any); ok && len(subs) > 0 {
								rich = true
							}
						}
					}
				}
			}
			if _, ok := res.Raw["location"]; ok {
				withLoc = true
			}
		}
		if rich {
			key = fmt.Sprint(i)
		}
		if withLoc {
			ctx.Count("reports_with_location_nodes", 1)
		}
		if len(rep.Results) >= 11 {
			ctx.Count("reports_with_11_or_more_results", 1)
		}
		ctx.Eval(key)
		if len(defects) > 0 {
			base["defects"] = defects
			ctx.Violation("malformed-report", fmt.Sprintf("report of case %d (kind %d) is not well formed: %s", i, kind, strings.Join(defects[:min(3, len(defects))], "; ")), base)
		}
		// a burst of validations through one compiled profile (little allocation in between): reports returned
		// earlier must stay what they were
		if (i/16)%2 == 0 {
			if cp := lib.Compile(ptext, nil); !cp.Failed() {
				var burst []kept
				for k := 0; k < 8; k++ {
					d := dtext
					if k%2 == 1 {
						d = c04Good
					}
					ob := lib.ValidateCompiled(cp.Q, d)
					burst = append(burst, kept{ob.Report, strings.Clone(ob.Report)})
				}
				for _, k := range burst {
					ctx.Count("retained_reports_rechecked", 1)
					if k.orig != k.clone {
						ctx.Violation("report-changed-after-return", "a report string returned earlier changed its content after later validations with the same compiled profile", map[string]any{"profile": ptext, "data": dtext, "was": clip(k.clone, 300), "is": clip(k.orig, 300)})
						break
					}
					if _, err := lib.ParseReport(k.orig); err != nil {
						ctx.Violation("not-a-report", "burst report: "+err.Error(), base)
						break
					}
				}
			}
		}
		// reports stay what they were after later validations in the same process
		retained = append(retained, kept{o.Report, strings.Clone(o.Report)})
		if len(retained) > 6 {
			retained = retained[1:]
		}
		for _, k := range retained {
			ctx.Count("retained_reports_rechecked", 1)
			if k.orig != k.clone {
				ctx.Violation("report-changed-after-return", "a report string returned earlier changed its content after later validations", map[string]any{"was": clip(k.clone, 400), "is": clip(k.orig, 400)})
				break
			}
		}
		if i < 4 {
			ctx.Sample(map[string]any{"kind": []string{"three levels, >=11 results", "formula family", "path probes", "formula family + source maps", "chain of nested constraints"}[kind], "results": len(rep.Results), "typed_nodes": typed, "max_typed_depth": depth})
		}
	})
	ctx.Count("sum_over_workers_of_max_typed_nodes_in_one_report", maxTyped)
	ctx.FinishShard()
}

func min(a, b int) int {
	if a < b {
		return a
	}
	return b
}
