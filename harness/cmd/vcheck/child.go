package main

func childMain(args []string) {}
