package main

import (
	"crypto/sha256"
	"fmt"
	"os"
	"sort"
	"strings"
	"sync"
	"time"

	"verif/lib"

	"github.com/aml-org/amf-custom-validator/pkg"
	"github.com/aml-org/amf-custom-validator/pkg/config"
)

// childMain: small one-shot helpers run in fresh processes.
//
//	child report <profile-file> <data-file>          prints the report (fixed clock) or "ERROR: ..." (exit 0 either way)
//	child conc <profile-file> <data-file> <n>        n goroutines validate the same pair; prints the distinct sha256 digests seen
func childMain(args []string) {
	if len(args) == 2 && (args[0] == "generate" || args[0] == "normalize") {
		// the library's own answer, from a fresh process (generated names are numbered per process)
		b, err := os.ReadFile(args[1])
		if err != nil {
			os.Exit(2)
		}
		var out string
		if args[0] == "generate" {
			out, err = pkg.VerifGenerateRego(string(b))
		} else {
			out, err = pkg.VerifNormalize(string(b))
		}
		if err != nil {
			fmt.Print("ERROR: " + err.Error())
			return
		}
		fmt.Print(out)
		return
	}
	if len(args) == 2 && args[0] == "env-calls" {
		// calls through every entry point (answers from the recovered-panic path, ordinary errors, reports) in whatever
		// environment the parent set up; outcomes go to the named file, nothing is printed
		childEnvCalls(args[1])
		return
	}
	if len(args) < 3 {
		fmt.Fprintln(os.Stderr, "child: bad arguments")
		os.Exit(2)
	}
	p, err1 := os.ReadFile(args[1])
	d, err2 := os.ReadFile(args[2])
	if err1 != nil || err2 != nil {
		fmt.Fprintln(os.Stderr, "child: cannot read inputs")
		os.Exit(2)
	}
	switch args[0] {
	case "report":
		o := lib.Validate(string(p), string(d))
		if cfg := os.Getenv("VERIF_CHILD_CFG"); cfg != "" {
			// "<include 0|1>|<report schema iri>|<lexical schema iri>"
			// optionally followed by "|<index of the clock in c09Clocks>"
			parts := strings.Split(cfg, "|")
			if len(parts) >= 3 {
				rc := config.ReportConfiguration{IncludeReportCreationTime: parts[0] == "1", ReportSchemaIri: parts[1], LexicalSchemaIri: parts[2]}
				clock := lib.Epoch2000
				if len(parts) == 4 {
					var ki int
					fmt.Sscan(parts[3], &ki)
					if ki >= 0 && ki < len(c09Clocks) {
						clock = c09Clocks[ki]
					}
				}
				o = lib.ValidateCfg(string(p), string(d), nil, clock, rc)
			}
		}
		if o.Failed() {
			fmt.Print("ERROR: " + o.ErrString())
			return
		}
		fmt.Print(o.Report)
	case "conc":
		n := 8
		if len(args) > 3 {
			fmt.Sscanf(args[3], "%d", &n)
		}
		digests := make([]string, n)
		var wg sync.WaitGroup
		start := make(chan struct{})
		for i := 0; i < n; i++ {
			wg.Add(1)
			go func(i int) {
				defer wg.Done()
				<-start
				o := lib.Validate(string(p), string(d))
				if o.Failed() {
					digests[i] = "ERROR: " + o.ErrString()
					return
				}
				digests[i] = fmt.Sprintf("%x", sha256.Sum256([]byte(o.Report)))
			}(i)
		}
		close(start)
		wg.Wait()
		set := map[string]bool{}
		for _, x := range digests {
			set[x] = true
		}
		keys := make([]string, 0, len(set))
		for k := range set {
			keys = append(keys, k)
		}
		sort.Strings(keys)
		for _, k := range keys {
			fmt.Println(k)
		}
	default:
		fmt.Fprintln(os.Stderr, "child: unknown mode")
		os.Exit(2)
	}
}

func childEnvCalls(outFile string) {
	// clean-up only (no verdict): if the library blocks, the worker that started this process is ended by its watchdog
	// after 180 s; this process must not stay behind
	go func() {
		time.Sleep(10 * time.Minute)
		os.Exit(3)
	}()
	var lines []string
	note := func(name string, o lib.Outcome) {
		switch {
		case o.Panic != nil:
			lines = append(lines, name+" PANIC "+fmt.Sprint(o.Panic))
		case o.Err != nil:
			lines = append(lines, name+" error")
		default:
			lines = append(lines, name+" report "+fmt.Sprint(len(o.Report)))
		}
		_ = os.WriteFile(outFile, []byte(strings.Join(lines, "\n")+"\n"), 0o644)
	}
	noElement := strings.Replace(lib.SourceMapDoc(), `"http://a.ml/vocabularies/document-source-maps#element":[{"@value":"http://ex.org/n1"}],`, "", 1)
	noRoot := strings.Replace(lib.SourceMapDoc(), `,"http://a.ml/vocabularies/document#rootLocation":[{"@value":"file:///root.yaml"}]`, "", 1)
	notCompact := "profile: x\nviolation: [v]\nvalidations:\n  v:\n    targetClass: EndPoint\n    propertyConstraints:\n      nope.a:\n        minCount: 1\n"
	good := lib.Compile(c17GoodProfile, nil)
	for round := 0; round < 3; round++ {
		for _, d := range []string{noElement, noRoot, `{"@graph":5}`, `{"@context": 5}`, "not json", c11GoodData, "{}"} {
			note("Validate", lib.ValidateDefault(c17GoodProfile, d, nil))
			note("ValidateWithConfiguration", lib.Validate(c17GoodProfile, d))
			if !good.Failed() {
				note("ValidateCompiled", lib.ValidateCompiledDefault(good.Q, d, nil))
				note("ValidateCompiledWithConfiguration", lib.ValidateCompiled(good.Q, d))
			}
		}
		for _, p := range []string{notCompact, "a: [", "", c11KeysProfile} {
			c := lib.Compile(p, nil)
			note("CompileProfile", lib.Outcome{Err: c.Err, Panic: c.Panic})
			note("Validate", lib.ValidateDefault(p, c11GoodData, nil))
		}
	}
	lines = append(lines, "DONE")
	_ = os.WriteFile(outFile, []byte(strings.Join(lines, "\n")+"\n"), 0o644)
}
