package main

import (
	"crypto/sha256"
	"fmt"
	"os"
	"sort"
	"strings"
	"sync"

	"verif/lib"

	"github.com/aml-org/amf-custom-validator/pkg"
	"github.com/aml-org/amf-custom-validator/pkg/config"
)

// childMain: small one-shot helpers run in fresh processes.
//
//	child report <profile-file> <data-file>          prints the report (fixed clock) or "ERROR: ..." (exit 0 either way)
//	child conc <profile-file> <data-file> <n>        n goroutines validate the same pair; prints the distinct sha256 digests seen
func childMain(args []string) {
	if len(args) == 2 && (args[0] == "generate" || args[0] == "normalize") {
		// the library's own answer, from a fresh process (generated names are numbered per process)
		b, err := os.ReadFile(args[1])
		if err != nil {
			os.Exit(2)
		}
		var out string
		if args[0] == "generate" {
			out, err = pkg.VerifGenerateRego(string(b))
		} else {
			out, err = pkg.VerifNormalize(string(b))
		}
		if err != nil {
			fmt.Print("ERROR: " + err.Error())
			return
		}
		fmt.Print(out)
		return
	}
	if len(args) < 3 {
		fmt.Fprintln(os.Stderr, "child: bad arguments")
		os.Exit(2)
	}
	p, err1 := os.ReadFile(args[1])
	d, err2 := os.ReadFile(args[2])
	if err1 != nil || err2 != nil {
		fmt.Fprintln(os.Stderr, "child: cannot read inputs")
		os.Exit(2)
	}
	switch args[0] {
	case "report":
		o := lib.Validate(string(p), string(d))
		if cfg := os.Getenv("VERIF_CHILD_CFG"); cfg != "" {
			// "<include 0|1>|<report schema iri>|<lexical schema iri>"
			parts := strings.SplitN(cfg, "|", 3)
			if len(parts) == 3 {
				rc := config.ReportConfiguration{IncludeReportCreationTime: parts[0] == "1", ReportSchemaIri: parts[1], LexicalSchemaIri: parts[2]}
				o = lib.ValidateCfg(string(p), string(d), nil, lib.Epoch2000, rc)
			}
		}
		if o.Failed() {
			fmt.Print("ERROR: " + o.ErrString())
			return
		}
		fmt.Print(o.Report)
	case "conc":
		n := 8
		if len(args) > 3 {
			fmt.Sscanf(args[3], "%d", &n)
		}
		digests := make([]string, n)
		var wg sync.WaitGroup
		start := make(chan struct{})
		for i := 0; i < n; i++ {
			wg.Add(1)
			go func(i int) {
				defer wg.Done()
				<-start
				o := lib.Validate(string(p), string(d))
				if o.Failed() {
					digests[i] = "ERROR: " + o.ErrString()
					return
				}
				digests[i] = fmt.Sprintf("%x", sha256.Sum256([]byte(o.Report)))
			}(i)
		}
		close(start)
		wg.Wait()
		set := map[string]bool{}
		for _, x := range digests {
			set[x] = true
		}
		keys := make([]string, 0, len(set))
		for k := range set {
			keys = append(keys, k)
		}
		sort.Strings(keys)
		for _, k := range keys {
			fmt.Println(k)
		}
	default:
		fmt.Fprintln(os.Stderr, "child: unknown mode")
		os.Exit(2)
	}
}
