package main

import (
	"fmt"
	"math/rand"
	"sort"
	"strings"

	"verif/lib"
)

func init() { checks["C16"] = c16 }

// enumPaths enumerates every path AST with exactly n leaves; leaf k uses predicate names[k].
func enumPaths(n int, names []string) []lib.Path {
	if n == 1 {
		return []lib.Path{
			lib.Pred{Prefix: "ex", Local: names[0]},
			lib.Pred{Prefix: "ex", Local: names[0], Inverse: true},
			lib.TypeStep{},
		}
	}
	var out []lib.Path
	// compositions of n into k>=2 parts
	var comps [][]int
	var rec func(rem int, cur []int)
	rec = func(rem int, cur []int) {
		if rem == 0 {
			if len(cur) >= 2 {
				comps = append(comps, append([]int{}, cur...))
			}
			return
		}
		for p := 1; p <= rem; p++ {
			rec(rem-p, append(cur, p))
		}
	}
	rec(n, nil)
	for _, comp := range comps {
		// cartesian product of sub-enumerations
		parts := make([][]lib.Path, len(comp))
		off := 0
		for i, sz := range comp {
			parts[i] = enumPaths(sz, names[off:off+sz])
			off += sz
		}
		idx := make([]int, len(comp))
		for {
			items := make([]lib.Path, len(comp))
			for i := range comp {
				items[i] = parts[i][idx[i]]
			}
			out = append(out, lib.Seq{Items: items}, lib.Alt{Items: append([]lib.Path{}, items...)})
			k := len(idx) - 1
			for k >= 0 {
				idx[k]++
				if idx[k] < len(parts[k]) {
					break
				}
				idx[k] = 0
				k--
			}
			if k < 0 {
				break
			}
		}
	}
	return out
}

// U+FFFD and U+FEFF: characters scanners use as markers; the five before them are Unicode white space that is NOT white space of the grammar ([ \\n\\t\\r] only)
const c16Alphabet = "abcxe019./|^() \n@\u00a0\v\f\u2028\u3000\ufffd\ufeff"

// singleEdits returns every string at edit distance one (delete / insert / replace one character of the alphabet).
func singleEdits(s string) []string {
	set := map[string]bool{}
	for i := 0; i < len(s); i++ {
		set[s[:i]+s[i+1:]] = true
		for _, c := range c16Alphabet {
			set[s[:i]+string(c)+s[i+1:]] = true
		}
	}
	for i := 0; i <= len(s); i++ {
		for _, c := range c16Alphabet {
			set[s[:i]+string(c)+s[i:]] = true
		}
	}
	delete(set, s)
	out := lib.SortedKeys(set)
	return out
}

// judgeable: only prefixes the profile declares and names the IRI expander admits take part in the verdict for sentences.
func judgeableSentence(p lib.Path) bool {
	ok := true
	var walk func(lib.Path)
	walk = func(x lib.Path) {
		switch v := x.(type) {
		case lib.Pred:
			if v.Prefix != "ex" {
				ok = false
			}
			for _, c := range v.Local {
				if !(c >= 'a' && c <= 'z' || c >= '0' && c <= '9' || c == '.') {
					ok = false // '/', '\\', '_', '-' in local names: escaping conventions, outside the judged alphabet
				}
			}
			if strings.HasSuffix(v.Local, ".") || strings.HasPrefix(v.Local, ".") || strings.Contains(v.Local, "..") {
				ok = false
			}
		case lib.Seq:
			for _, it := range v.Items {
				walk(it)
			}
		case lib.Alt:
			for _, it := range v.Items {
				walk(it)
			}
		}
	}
	walk(p)
	return ok
}

func c16Graph(r *rand.Rand) *lib.Graph {
	g := lib.NewGraph()
	n := 7
	ids := make([]string, n)
	for i := range ids {
		ids[i] = fmt.Sprintf("%sg%d", lib.EX, i)
		if i < 2 {
			g.AddNode(ids[i], lib.EX+"T")
		} else {
			g.AddNode(ids[i], lib.EX+"U")
		}
	}
	for i, id := range ids {
		node := g.Node(id)
		node.Add(lib.EX+"mark", lib.StrV(fmt.Sprintf("m%d", i)))
		for _, p := range []string{"a", "b", "c", "d"} {
			for j := 0; j < n; j++ {
				if r.Intn(4) == 0 {
					node.Add(lib.EX+p, lib.RefV(ids[j]))
				}
			}
		}
	}
	return g
}

type c16Item struct {
	text     string
	valid    bool     // reference recogniser's verdict
	ast      lib.Path // reference AST when valid
	judgeDen bool     // compare denotation
	origin   string
	from     string // for edits: the sentence the string was derived from (parsed first, in the same process)
}

// C16: a path string is accepted iff the whole string is a sentence of the documented grammar, with the structure
// the grammar assigns. Acceptance is observed through CompileProfile of a one-constraint profile, structure through
// the denotation decoded from verdicts on discriminating graphs.
func c16(tier string) {
	ctx := lib.NewCtx("C16", tier)
	maxLeaves := ctx.N(3, 4)
	ctx.Rule = fmt.Sprintf("EXHAUSTIVE enumeration of all path ASTs with <=%d IRIs/@type over sequence, alternative, inverse and grouping, each printed in several whitespace / redundant-parenthesis variants, plus single-character edits (delete/insert/replace over the alphabet %q) of the canonical print of every sentence with <=%d IRIs (%s), every single blank and every run of blanks of every canonical print deleted, runs of 33-72 blanks inside / around the sentence and between it and stray text, and paths with 64-65 (quick) / 31-130 (thorough) groups / nesting levels / steps (whole, and with a parenthesis or an operand missing); each string is classified by an independent recogniser of the documented grammar; "+
		"sentences must compile and denote what the grammar's structure denotes on discriminating graphs, non-sentences must be rejected; non-trivial & distinct = distinct judged string", maxLeaves, c16Alphabet, ctx.N(2, 3), map[bool]string{true: "seeded 12% sample", false: "all of them"}[ctx.Quick()])
	ctx.Assumptions = []string{
		"strings with leading/trailing whitespace and the empty string are not judged",
		"for sentences only prefix `ex` and local names over [a-z0-9.] are judged (other names are subject to IRI-expansion rules, not to the path grammar)",
		"rejection = CompileProfile returns an error (a panic counts as rejection here; panics are C17's subject)",
	}
	if !ctx.IsShard() {
		ctx.RunShards()
		ctx.Extra["exhaustive"] = true
		ctx.Extra["exhaustive_scope"] = fmt.Sprintf("all path ASTs with at most %d leaves", maxLeaves)
		if ctx.Counter("sentences_judged") == 0 || ctx.Counter("nonsentences_judged") == 0 {
			ctx.Inconclusive("one of the two classes was never judged")
		}
		ctx.MinDistinct = 200
		ctx.Finish()
	}
	names := []string{"a", "b", "c", "d"}
	var items []c16Item
	seen := map[string]bool{}
	add := func(text, origin string, gen lib.Path, from string) {
		if seen[text] || text == "" || strings.TrimSpace(text) != text {
			return
		}
		seen[text] = true
		ast, ok := lib.ParsePathRef(text)
		it := c16Item{text: text, valid: ok, ast: ast, origin: origin, from: from}
		if gen != nil {
			// self-check of the harness: the reference parser must recover the structure that was printed
			if !ok || denotSig(ast) != denotSig(gen) {
				ctx.Inconclusive(fmt.Sprintf("harness self-check: printed %q from %s, reference parser gives %v", text, lib.CanonPath(gen), ok))
				return
			}
		}
		if ok {
			it.judgeDen = judgeableSentence(ast)
			if !it.judgeDen {
				if ctx.First() {
					ctx.Count("sentences_with_unjudged_names", 1)
				}
				return
			}
		}
		items = append(items, it)
	}
	r0 := lib.CaseRand(ctx.Seed, 16, 0)
	nameSets := [][]string{names, {"a", "a", "a", "a"}, {"a", "b", "a", "b"}, {"b", "a", "a", "c"}} // distinct steps, and repeated steps
	for n := 1; n <= maxLeaves; n++ {
		for nsi, ns := range nameSets {
			if nsi > 0 && n == 1 {
				continue
			}
			for _, p := range enumPaths(n, ns) {
				canon := lib.PrintPath(p)
				add(canon, "sentence", p, "")
				if nsi > 0 {
					continue // repeated-step sentences: canonical print only
				}
				if ctx.First() {
					ctx.Count(fmt.Sprintf("asts_with_%d_leaves", n), 1)
				}
				for v := 0; v < 3; v++ {
					add(lib.PrintPathVariant(p, &lib.PathPrintOpts{
						ExtraParens: func() bool { return r0.Intn(3) == 0 },
						Space:       func() string { return pick(r0, " ", "", "  ", "\t", "\n", " \r\n ") },
					}), "variant", p, canon)
				}
				// blanks matter next to `/` (a slash directly after a name is part of the name): every single blank of the
				// canonical print deleted, one at a time, unsampled
				for bi := 0; bi < len(canon); bi++ {
					if canon[bi] == ' ' {
						add(canon[:bi]+canon[bi+1:], "edit", nil, canon)
						if bi == 0 || canon[bi-1] != ' ' { // and the whole run of blanks that starts here
							be := bi
							for be < len(canon) && canon[be] == ' ' {
								be++
							}
							if be > bi+1 {
								add(canon[:bi]+canon[be:], "edit", nil, canon)
							}
						}
					}
				}
				// long runs of blanks: inside the sentence, around it, and between the sentence and stray text
				if n <= 2 || r0.Intn(8) == 0 {
					run := strings.Repeat(" ", 33+r0.Intn(40))
					if bi := strings.Index(canon, " "); bi >= 0 {
						add(canon[:bi]+run+canon[bi+1:], "edit", nil, canon)
					}
					add(run+canon+run, "edit", nil, canon)
					for _, junk := range []string{")", ") / ex.b", "ex.b", "|", "/", "^", "x", "( ex.a", "@type", "/ / ex.b"} {
						add(canon+run+junk, "edit", nil, canon)
					}
				}
				if n <= ctx.N(2, 3) {
					for _, e := range singleEdits(canon) {
						if (ctx.Quick() && r0.Intn(100) >= 12) || (!ctx.Quick() && r0.Intn(100) >= 40) {
							continue
						}
						add(e, "edit", nil, canon)
					}
				}
			}
		}
	}
	// scale: many groups, deep redundant nesting, long sequences and alternatives (sentences), and the same with one
	// parenthesis missing or one operand empty (not sentences)
	scaleKs := []int{64, 65}
	if !ctx.Quick() {
		scaleKs = []int{31, 32, 33, 63, 64, 65, 66, 85, 100, 130}
	}
	// long SEQUENCES are costly for the engine to evaluate (a 90-step sequence keeps one case busy for more than a
	// quarter of an hour): sequences are judged up to 33 steps, alternatives / nesting up to 130
	for _, k := range scaleKs {
		var groups, plain []string
		for j := 0; j < k; j++ {
			groups = append(groups, fmt.Sprintf("(ex.n%d)", j%7))
			plain = append(plain, fmt.Sprintf("ex.n%d", j%7))
		}
		deep := strings.Repeat("(", k) + "ex.a" + strings.Repeat(")", k)
		forms := []string{strings.Join(groups, " | "), strings.Join(plain, " | "), deep, deep + " / " + deep}
		if k <= 33 {
			forms = append(forms, strings.Join(groups, " / "), strings.Join(plain, " / "))
		}
		if ctx.Quick() {
			forms = []string{strings.Join(groups, " | "), deep}
		}
		for _, t := range forms {
			if len(t) > 900 {
				continue // an implicit YAML key is limited to 1024 characters
			}
			add(t, "edit", nil, "")
			add(t[1:], "edit", nil, "")
			add(t+")", "edit", nil, "")
			add(strings.Replace(t, "ex.n3", "", 1), "edit", nil, "")
		}
	}
	// deterministic order, then shard
	sort.Slice(items, func(i, j int) bool { return items[i].text < items[j].text })
	graphs := []*lib.Graph{c16Graph(lib.CaseRand(ctx.Seed, 16, 1)), c16Graph(lib.CaseRand(ctx.Seed, 16, 2))}
	pfx := map[string]string{"ex": lib.EX}
	const batch = 6
	nb := (len(items) + batch - 1) / batch
	ctx.ForEach(nb, func(b int) {
		lo, hi := b*batch, (b+1)*batch
		if hi > len(items) {
			hi = len(items)
		}
		group := items[lo:hi]
		// acceptance: one profile per string (a rejected string must not hide the others)
		var accepted []c16Item
		for _, it := range group {
			prof := &lib.ProfileDoc{Name: "c16", Prefixes: [][2]string{{"ex", lib.EX}}, Violation: []string{"v"},
				Validations: []lib.Validation{{Name: "v", TargetClass: "ex.T", Message: "m", Body: lib.PC1(it.text, lib.CScalar("minCount", lib.Int(1)))}}}
			ptext := prof.Text()
			if it.from != "" {
				// the sentence this string was derived from is parsed first, in this process: acceptance of a string
				// must not depend on what was parsed before
				fp := &lib.ProfileDoc{Name: "c16", Prefixes: [][2]string{{"ex", lib.EX}}, Violation: []string{"v"},
					Validations: []lib.Validation{{Name: "v", TargetClass: "ex.T", Message: "m", Body: lib.PC1(it.from, lib.CScalar("minCount", lib.Int(1)))}}}
				if c := lib.Compile(fp.Text(), nil); c.Failed() {
					ctx.Count("origin_sentence_rejected", 1)
				}
				ctx.Count("strings_judged_after_their_origin_sentence", 1)
			}
			ctx.Begin(it.text, map[string]string{"profile": ptext})
			cp := lib.Compile(ptext, nil)
			ctx.End()
			// the same string as the argument of a property comparison (next to another constraint): a path is a path
			if hash(it.text)%2 == 0 {
				ap := &lib.ProfileDoc{Name: "c16arg", Prefixes: [][2]string{{"ex", lib.EX}}, Violation: []string{"v"},
					Validations: []lib.Validation{{Name: "v", TargetClass: "ex.T", Message: "m", Body: lib.PC1("ex.z", lib.CScalar(pick(lib.CaseRand(ctx.Seed, 16, int(hash(it.text)%1000)), "lessThanProperty", "equalsToProperty", "disjointWithProperty", "lessThanOrEqualsToProperty"), lib.Str(it.text)), lib.CScalar("minCount", lib.Int(1)))}}}
				atext := ap.Text()
				ac := lib.Compile(atext, nil)
				ctx.Count("strings_also_judged_as_comparison_argument", 1)
				if it.valid && ac.Failed() {
					ctx.Violation("sentence-rejected", fmt.Sprintf("path %q is a sentence of the grammar but was rejected as the argument of a property comparison: %s", it.text, ac.ErrString()), map[string]any{"profile": atext, "path": it.text})
				}
				if !it.valid && !ac.Failed() {
					ctx.Violation("nonsentence-accepted", fmt.Sprintf("string %q is not a sentence of the path grammar but was accepted as the argument of a property comparison", it.text), map[string]any{"profile": atext, "path": it.text})
				}
			}
			ctx.Eval(it.text)
			rp := map[string]any{"profile": ptext, "data": graphs[0].CanonicalJSONLD(), "path": it.text, "origin": it.origin}
			if it.valid {
				ctx.Count("sentences_judged", 1)
				if cp.Failed() {
					ctx.Violation("sentence-rejected", fmt.Sprintf("path %q is a sentence of the grammar (%s) but was rejected: %s", it.text, lib.CanonPath(it.ast), cp.ErrString()), rp)
					continue
				}
				accepted = append(accepted, it)
			} else {
				ctx.Count("nonsentences_judged", 1)
				if cp.Panic != nil {
					ctx.Count("nonsentences_rejected_by_panic", 1)
				}
				if !cp.Failed() {
					ctx.Violation("nonsentence-accepted", fmt.Sprintf("string %q is not a sentence of the path grammar but the profile compiled", it.text), rp)
				}
			}
		}
		if len(accepted) == 0 {
			return
		}
		// structure: decode the reached node set of every accepted sentence on the discriminating graphs
		prof := &lib.ProfileDoc{Name: "c16s", Prefixes: [][2]string{{"ex", lib.EX}}}
		g0 := graphs[0]
		var marks []string
		for j := range g0.Nodes {
			marks = append(marks, fmt.Sprintf("m%d", j))
		}
		for ai, it := range accepted {
			for j := range g0.Nodes {
				var others []string
				for jj, m := range marks {
					if jj != j {
						others = append(others, m)
					}
				}
				name := fmt.Sprintf("s%d_nd%d", ai, j)
				prof.Validations = append(prof.Validations, lib.Validation{Name: name, TargetClass: "ex.T", Message: name,
					Body: lib.PC1(it.text, lib.CNested(lib.PC1("ex.mark", lib.CList("in", others...))))})
				prof.Violation = append(prof.Violation, name)
			}
		}
		ptext := prof.Text()
		for gi, g := range graphs {
			dtext := g.CanonicalJSONLD()
			o := lib.Validate(ptext, dtext)
			if o.Failed() {
				ctx.Violation("structure-probe-failed", "accepted sentences could not be evaluated: "+o.ErrString(), map[string]any{"profile": ptext, "data": dtext})
				return
			}
			rep, err := lib.ParseReport(o.Report)
			if err != nil {
				ctx.Violation("bad-report", err.Error(), map[string]any{"profile": ptext, "data": dtext})
				return
			}
			for ai, it := range accepted {
				for _, f := range g.OfType(lib.EX + "T") {
					var obs []string
					for j, n := range g.Nodes {
						if rep.Reported(fmt.Sprintf("s%d_nd%d", ai, j), f.ID) {
							obs = append(obs, n.ID)
						}
					}
					exp := lib.NodesOf(g, lib.Denote(g, it.ast, f.ID, pfx))
					sort.Strings(obs)
					sort.Strings(exp)
					ctx.Count("structure_comparisons", 1)
					if !lib.SetEq(obs, exp) {
						ctx.Violation("structure", fmt.Sprintf("path %q: grammar structure %s reaches %v from %s, the tool reaches %v (graph %d)", it.text, lib.CanonPath(it.ast), short(exp), short1(f.ID), short(obs), gi),
							map[string]any{"profile": ptext, "data": dtext, "path": it.text, "structure": lib.CanonPath(it.ast), "expected": short(exp), "observed": short(obs)})
					}
				}
			}
		}
		if b%200 == 0 {
			ctx.Sample(map[string]any{"string": group[0].text, "is_sentence": group[0].valid, "origin": group[0].origin})
		}
	})
	ctx.FinishShard()
}

// denotSig: structure up to associativity-irrelevant nesting is NOT collapsed: the canonical form is compared as is.
func denotSig(p lib.Path) string { return lib.CanonPath(p) }
