package main

import (
	"bytes"
	"encoding/json"
	"fmt"
	"os"
	"os/exec"
	"path/filepath"
	"sort"
	"strings"
	"sync"
	"sync/atomic"
	"syscall"
	"time"

	"verif/lib"

	"github.com/aml-org/amf-custom-validator/pkg/config"
	"github.com/aml-org/amf-custom-validator/pkg/events"
)

func init() { checks["C10"] = c10 }

type c10Op struct {
	Kind   string // validate | compile | compiled | compiled-cfg
	P, D   int    // indexes into profiles / docs
	Cfg    int
	Digest string // sha of report or "ERROR: ..."
	start  int64
	end    int64
}

type c10ChildOut struct {
	Ops           int              `json:"ops"`
	Rounds        int              `json:"rounds"`
	OverlapPairs  int              `json:"overlap_pairs"`
	OverlappedOps int              `json:"overlapped_ops"`
	Mismatches    []map[string]any `json:"mismatches"`
	Mixes         map[string]int   `json:"mixes"`
	GoroutineSets map[string]int   `json:"goroutine_counts"`
	Gomaxprocs    string           `json:"gomaxprocs"`
	Samples       []map[string]any `json:"samples"`
}

func c10WideProfile() (*lib.ProfileDoc, *lib.Graph) {
	// many path-based validations: a duplicated generated rule name merges two path rules and changes verdicts
	p := &lib.ProfileDoc{Name: "c10-wide", Prefixes: [][2]string{{"ex", lib.EX}}}
	g := lib.NewGraph()
	for k := 0; k < 36; k++ {
		name := fmt.Sprintf("w%d", k)
		p.Validations = append(p.Validations, lib.Validation{Name: name, TargetClass: "ex.T", Message: "m " + name,
			Body: lib.PC1(fmt.Sprintf("ex.q%d / ex.leaf%d", k, k), lib.CScalar("minCount", lib.Int(1)))})
		p.Violation = append(p.Violation, name)
	}
	for n := 0; n < 6; n++ {
		nd := g.AddNode(fmt.Sprintf("%swide%d", lib.EX, n), lib.EX+"T")
		for k := 0; k < 36; k++ {
			if (k+n)%3 == 0 {
				mid := g.AddNode(fmt.Sprintf("%swide%d_m%d", lib.EX, n, k), lib.EX+"M")
				nd.Add(fmt.Sprintf("%sq%d", lib.EX, k), lib.RefV(mid.ID))
				mid.Add(fmt.Sprintf("%sleaf%d", lib.EX, k), lib.StrV("v"))
			}
		}
	}
	return p, g
}

var c10Cfgs = []config.ReportConfiguration{
	config.DefaultReportConfiguration(),
	{IncludeReportCreationTime: false, ReportSchemaIri: "http://a.example/report", LexicalSchemaIri: "http://a.example/lexical"},
	{IncludeReportCreationTime: true, ReportSchemaIri: "urn:b:report", LexicalSchemaIri: ""},
}

// c10Child runs inside the -race build.
func c10Child(tier string, seed int64) {
	quick := tier != "thorough"
	rounds := 18
	if !quick {
		rounds = 72
	}
	var profiles, docs []string
	wp, wg := c10WideProfile()
	profiles = append(profiles, wp.Text())
	docs = append(docs, wg.CanonicalJSONLD())
	for k := 0; k < 8; k++ {
		r := lib.CaseRand(seed, 10, k)
		p, g := c06Profile(r, k)
		profiles = append(profiles, p.Text())
		docs = append(docs, g.CanonicalJSONLD())
	}
	g5 := c05Graph(lib.CaseRand(seed, 10, 99))
	for _, p := range c05Profiles() {
		profiles = append(profiles, p.Text())
	}
	docs = append(docs, g5.CanonicalJSONLD(), lib.DecorateWithSourceMaps(g5, lib.CaseRand(seed, 10, 98)).Text, c04Good, "{}", "{\"@graph\":")
	// a profile that re-binds the built-in prefix apiExt to its own namespace, and profiles that use custom-domain-property paths
	cbase, cg := c15Base(lib.CaseRand(seed, 10, 97), 0)
	profiles = append(profiles, cbase.Text())
	docs = append(docs, cg.CanonicalJSONLD())
	reb, rg := c06Profile(lib.CaseRand(seed, 10, 96), 96)
	for _, b := range []string{"apiExt", "core", "shapes", "doc"} {
		reb.Prefixes = append(reb.Prefixes, [2]string{b, "http://rebound.example/" + b + "#"})
	}
	profiles = append(profiles, reb.Text(), cbase.Text(), reb.Text())
	docs = append(docs, rg.CanonicalJSONLD())
	// documents whose @context is kept in a file of its own (referenced, or imported by an inline context): the
	// JSON-LD processor's document loader runs inside every validation
	ctxDir, _ := os.MkdirTemp("", "c10ctx")
	defer os.RemoveAll(ctxDir)
	for k, mode := range []string{"reference", "import", "reference"} {
		gk := c05Graph(lib.CaseRand(seed, 10, 90+k))
		doc, ctxText := gk.ContextByReference(filepath.Join(ctxDir, "context.jsonld"), mode)
		_ = os.WriteFile(filepath.Join(ctxDir, "context.jsonld"), []byte(ctxText), 0o644)
		docs = append(docs, doc)
	}
	// a document that keeps one evaluation busy for a while (800 nodes with results): a round in which every goroutine
	// validates it shares the processors among long evaluations
	docs = append(docs, c09HugeDoc(800))
	heavyDoc, heavyProfile := len(docs)-1, 10 // c05Profiles()[1] ("sets") sits at index 9+1
	// a profile nested 3000 levels deep (cheap for the engine): whatever is counted per nesting level is counted concurrently
	deep := "profile: c10 deep\nprefixes:\n  ex: http://ex.org/\nviolation:\n  - v\nvalidations:\n  v:\n    targetClass: ex.T\n    message: m\n    not: " +
		strings.Repeat("{not: ", 3000) + "{propertyConstraints: {ex.x: {minCount: 1}}}" + strings.Repeat("}", 3000) + "\n"
	profiles = append(profiles, deep, deep)
	deepIdx := len(profiles) - 1
	// documents that are answered with an error from deep inside the normalizer (broken source maps): failure paths run concurrently too
	docs = append(docs,
		strings.Replace(lib.SourceMapDoc(), `"http://a.ml/vocabularies/document-source-maps#element":[{"@value":"http://ex.org/n1"}],`, "", 1),
		strings.Replace(lib.SourceMapDoc(), `,"http://a.ml/vocabularies/document-source-maps#value":[{"@value":"[(7,2)-(9,4)]"}]`, "", 1))
	fx := lib.LoadFixtures(6, 6)
	profiles = append(profiles, fx.Profiles...)
	docs = append(docs, fx.Data...)
	// serial reference: every (kind, profile, doc, cfg) result, computed before any concurrency
	refCache := map[string]string{}
	var refMu sync.Mutex
	digestOf := func(o lib.Outcome) string {
		if o.Failed() {
			return "ERROR"
		}
		return sha(o.Report)
	}
	runOp := func(op *c10Op, compiled []lib.Compiled) string {
		cfg := c10Cfgs[op.Cfg]
		// every second operation supplies its own (buffered) event channel: the event plumbing runs concurrently too
		var chp *chan events.Event
		if (op.P+op.D+op.Cfg)%2 == 0 {
			ch := make(chan events.Event, 64)
			chp = &ch
		}
		switch op.Kind {
		case "validate":
			return digestOf(lib.ValidateCfg(profiles[op.P], docs[op.D], chp, lib.Epoch2000, cfg))
		case "compile":
			c := lib.Compile(profiles[op.P], chp)
			if c.Failed() {
				return "ERROR"
			}
			return digestOf(lib.ValidateCompiledCfg(c.Q, docs[op.D], chp, lib.Epoch2000, cfg))
		default:
			if compiled[op.P].Failed() {
				return "ERROR"
			}
			return digestOf(lib.ValidateCompiledCfg(compiled[op.P].Q, docs[op.D], chp, lib.Epoch2000, cfg))
		}
	}
	compiled := make([]lib.Compiled, len(profiles))
	for i, p := range profiles {
		compiled[i] = lib.Compile(p, nil)
	}
	refKey := func(op *c10Op) string {
		k := op.Kind
		if k == "compile" || k == "compiled" || k == "compiled-cfg" {
			k = "via-compiled"
		}
		return fmt.Sprintf("%s/%d/%d/%d", k, op.P, op.D, op.Cfg)
	}
	reference := func(op *c10Op) string {
		refMu.Lock()
		defer refMu.Unlock()
		k := refKey(op)
		if v, ok := refCache[k]; ok {
			return v
		}
		v := runOp(op, compiled)
		refCache[k] = v
		return v
	}
	out := c10ChildOut{Mixes: map[string]int{}, GoroutineSets: map[string]int{}, Gomaxprocs: os.Getenv("GOMAXPROCS")}
	var clock int64
	mixes := []string{"same-profile", "different-profiles", "shared-compiled", "compile-storm", "mixed-with-configurations", "failing-reports-under-different-configurations"}
	for round := 0; round < rounds; round++ {
		_ = os.WriteFile(os.Getenv("VERIF_C10_OUT")+".progress", []byte(fmt.Sprintf("%d\n", round)), 0o644)
		r := lib.CaseRand(seed, 10, 1000+round)
		n := []int{2, 4, 16, 64}[(round/6+round)%4]
		if quick && n == 64 {
			n = 32
		}
		mix := mixes[round%len(mixes)]
		ops := make([]*c10Op, n)
		p0, d0 := r.Intn(len(profiles)), r.Intn(len(docs))
		for i := range ops {
			op := &c10Op{P: p0, D: d0}
			switch mix {
			case "same-profile":
				op.Kind = "validate"
			case "different-profiles":
				op.Kind, op.P, op.D = "validate", r.Intn(len(profiles)), r.Intn(len(docs))
			case "shared-compiled":
				op.Kind, op.D = "compiled", r.Intn(len(docs))
			case "compile-storm":
				op.Kind, op.P = "compile", r.Intn(len(profiles))
				if r.Intn(2) == 0 {
					op.P = 0 // the wide profile: many generated names
				}
				if round%12 == 3 {
					op.P = deepIdx // every goroutine compiles the 3000-level profile at the same time
				}
			case "failing-reports-under-different-configurations":
				// non-conforming reports (full report context) under alternating report configurations
				op.Kind, op.P, op.D, op.Cfg = pick(r, "validate", "compiled-cfg"), 0, 0, i%len(c10Cfgs)
				if r.Intn(3) == 0 {
					op.P, op.D = 1+r.Intn(8), 0
					op.D = op.P // generated profile k with its own graph
				}
			default:
				op.Kind = pick(r, "validate", "compile", "compiled-cfg")
				op.P, op.D, op.Cfg = r.Intn(len(profiles)), r.Intn(len(docs)), r.Intn(len(c10Cfgs))
			}
			if round == 5 || (!quick && round%24 == 17) {
				op.Kind, op.P, op.D, op.Cfg = pick(r, "validate", "compiled"), heavyProfile, heavyDoc, 0 // long evaluations only
			}
			ops[i] = op
		}
		// serial references first (never concurrently with the operations under test)
		for _, op := range ops {
			reference(op)
		}
		var wg sync.WaitGroup
		start := make(chan struct{})
		for _, op := range ops {
			wg.Add(1)
			go func(op *c10Op) {
				defer wg.Done()
				<-start
				op.start = atomic.AddInt64(&clock, 1)
				op.Digest = runOp(op, compiled)
				op.end = atomic.AddInt64(&clock, 1)
			}(op)
		}
		close(start)
		wg.Wait()
		out.Rounds++
		out.Mixes[mix]++
		out.GoroutineSets[fmt.Sprint(n)]++
		for i, a := range ops {
			out.Ops++
			overlapped := false
			for j, b := range ops {
				if j != i && a.start < b.end && b.start < a.end {
					overlapped = true
					if j > i {
						out.OverlapPairs++
					}
				}
			}
			if overlapped {
				out.OverlappedOps++
			}
			if want := reference(a); want != a.Digest {
				if len(out.Mismatches) < 30 {
					out.Mismatches = append(out.Mismatches, map[string]any{"mix": mix, "goroutines": n, "kind": a.Kind, "profile": profiles[a.P], "data": docs[a.D], "report_configuration": fmt.Sprintf("%+v", c10Cfgs[a.Cfg]),
						"concurrent_digest": a.Digest, "serial_digest": want})
				} else {
					out.Mismatches = append(out.Mismatches, nil)
				}
			}
		}
		if round < 2 {
			out.Samples = append(out.Samples, map[string]any{"mix": mix, "goroutines": n, "first_op": ops[0].Kind})
		}
	}
	b, _ := json.Marshal(out)
	_ = os.WriteFile(os.Getenv("VERIF_C10_OUT"), b, 0o644)
}

// parseRaceLogs splits the race detector's logs into report blocks.
func parseRaceLogs(glob string) (blocks []string) {
	files, _ := filepath.Glob(glob)
	sort.Strings(files)
	for _, f := range files {
		b, err := os.ReadFile(f)
		if err != nil {
			continue
		}
		for _, blk := range strings.Split(string(b), "==================") {
			if strings.Contains(blk, "WARNING: DATA RACE") {
				blocks = append(blocks, blk)
			}
		}
	}
	return
}

// raceKey: the first frame inside the code under test of each access stack (dedupe key).
func raceKey(block string) (key string, inRepo bool) {
	var firsts []string
	cur := ""
	flush := func() {
		if cur != "" {
			firsts = append(firsts, cur)
			cur = ""
		}
	}
	section := false
	for _, line := range strings.Split(block, "\n") {
		t := strings.TrimSpace(line)
		switch {
		case strings.HasPrefix(t, "Write at"), strings.HasPrefix(t, "Read at"), strings.HasPrefix(t, "Previous write at"), strings.HasPrefix(t, "Previous read at"), strings.HasPrefix(t, "Atomic"), strings.HasPrefix(t, "Previous atomic"):
			flush()
			section = true
		case strings.HasPrefix(t, "Goroutine "):
			flush()
			section = false
		case section && cur == "" && strings.Contains(t, "github.com/aml-org/amf-custom-validator/") && strings.HasSuffix(t, ")"):
			cur = t[:strings.Index(t, "(")]
		}
	}
	flush()
	if strings.Contains(block, "github.com/aml-org/amf-custom-validator/") || strings.Contains(block, "/repo/") {
		inRepo = true
	}
	sort.Strings(firsts)
	return strings.Join(firsts, " <-> "), inRepo
}

// C10: concurrent calls are free of data races and each returns what it would return alone.
func c10(tier string) {
	if os.Getenv("VERIF_C10_CHILD") == "1" {
		seed := int64(1)
		fmt.Sscanf(os.Getenv("VERIF_SEED"), "%d", &seed)
		c10Child(tier, seed)
		return
	}
	ctx := lib.NewCtx("C10", tier)
	ctx.Rule = "the harness built with the Go race detector runs rounds of N in {2,4,16,32/64} goroutines released by a barrier, in five mixes (same profile, different profiles, one shared compiled profile, compile storm incl. a 36-validation profile, mixed Validate / CompileProfile / ValidateCompiledWithConfiguration under three report configurations), under GOMAXPROCS 2 and 16; oracle 1: every race-detector report block whose stacks touch the code under test is a violation (blocks are counted from the log, exit codes are not trusted); oracle 2: each concurrent result's digest equals the digest of the same operation run alone before the round; " +
		"non-trivial & distinct = operation executed while overlapping at least one other operation (overlap measured with a logical clock)"
	ctx.Assumptions = []string{"the race detector only sees races on paths the workload executes concurrently; overlap is measured and reported", "OPA documents PreparedEvalQuery as safe for concurrent use; race blocks entirely inside dependencies are reported as observations"}
	raceBin := os.Getenv("VERIF_RACE_BIN")
	if raceBin == "" {
		ctx.Inconclusive("race build not available (run through ./check)")
		ctx.Finish()
	}
	outDir := filepath.Join(lib.OutRoot(), "out", "race")
	_ = os.MkdirAll(outDir, 0o755)
	totalOverlap := 0
	for _, procs := range []string{"2", "16"} {
		old, _ := filepath.Glob(filepath.Join(outDir, "C10-"+procs+".*"))
		for _, f := range old {
			_ = os.Remove(f)
		}
		resFile := filepath.Join(outDir, "C10-"+procs+".result.json")
		cmd := exec.Command(raceBin, "C10", tier)
		cmd.Env = append(os.Environ(), "VERIF_C10_CHILD=1", "GOMAXPROCS="+procs, "VERIF_C10_OUT="+resFile,
			"GORACE=halt_on_error=0 log_path="+filepath.Join(outDir, "C10-"+procs+".racelog"))
		var buf bytes.Buffer
		cmd.Stdout, cmd.Stderr = &buf, &buf
		t0 := time.Now()
		// watchdog on logical progress: the child notes every round it starts; a round (at most 64 operations that
		// take milliseconds alone) that does not end within 300 s is dumped (SIGQUIT) and judged from the dump
		progFile := resFile + ".progress"
		_ = os.Remove(progFile)
		err := cmd.Start()
		stalled := false
		if err == nil {
			done := make(chan error, 1)
			go func() { done <- cmd.Wait() }()
			last, lastChange, lastCPU := "", time.Now(), int64(0)
		wait:
			for {
				select {
				case err = <-done:
					break wait
				case <-time.After(2 * time.Second):
					pb, _ := os.ReadFile(progFile)
					cpu := procCPUTicks(cmd.Process.Pid)
					if string(pb) != last {
						last, lastChange, lastCPU = string(pb), time.Now(), cpu
					} else if time.Since(lastChange) > 300*time.Second && cpu-lastCPU > 1000 {
						// no new round, but more than 10 s of CPU went into this window: computing (a loaded machine makes rounds slow, not idle)
						lastChange, lastCPU = time.Now(), cpu
					} else if time.Since(lastChange) > 300*time.Second {
						stalled = true
						_ = cmd.Process.Signal(syscall.SIGQUIT)
						select {
						case err = <-done:
						case <-time.After(20 * time.Second):
							_ = cmd.Process.Kill()
							err = <-done
						}
						break wait
					}
				}
			}
		}
		if stalled {
			dump := buf.String()
			blocked := 0
			for _, gr := range strings.Split(dump, "\n\ngoroutine ") {
				head := strings.SplitN(gr, "\n", 2)[0]
				if (strings.Contains(head, "chan send") || strings.Contains(head, "chan receive") || strings.Contains(head, "semacquire") || strings.Contains(head, "select") || strings.Contains(head, "sync.")) &&
					strings.Contains(gr, "github.com/aml-org/amf-custom-validator/internal/") {
					blocked++
				}
			}
			if blocked > 0 {
				ctx.Violation("concurrent-calls-blocked", fmt.Sprintf("GOMAXPROCS=%s: round %s of the concurrent workload made no progress for 300 s during which the process used less than 10 s of CPU; %d goroutines are blocked inside the library (goroutine dump in the replay file)", procs, strings.TrimSpace(last0(progFile)), blocked), map[string]any{"goroutine_dump": clip(dump, 20000)})
			} else {
				ctx.Inconclusive(fmt.Sprintf("GOMAXPROCS=%s: the concurrent workload stalled but no goroutine is blocked inside the library (loaded machine?)", procs))
			}
			continue
		}
		ctx.Count("race_build_wall_seconds_gomaxprocs_"+procs, int(time.Since(t0).Seconds()))
		b, rerr := os.ReadFile(resFile)
		if rerr != nil {
			ctx.Violation("concurrent-crash", fmt.Sprintf("the concurrent workload (GOMAXPROCS=%s) did not finish: %v: %s", procs, err, clip(firstFatal(buf.String()), 300)), map[string]any{"output": clip(buf.String(), 6000)})
			continue
		}
		var out c10ChildOut
		_ = json.Unmarshal(b, &out)
		ctx.Evaluations += out.Ops
		ctx.Count("rounds", out.Rounds)
		ctx.Count("overlapping_operation_pairs", out.OverlapPairs)
		totalOverlap += out.OverlapPairs
		for k := 0; k < out.OverlappedOps; k++ {
			ctx.EvalDistinctOnly(fmt.Sprintf("gomaxprocs%s-op%d", procs, k))
		}
		for k, v := range out.Mixes {
			ctx.Count("mix:"+k, v)
		}
		for k, v := range out.GoroutineSets {
			ctx.Count("goroutines:"+k, v)
		}
		for _, s := range out.Samples {
			ctx.Sample(s)
		}
		for _, m := range out.Mismatches {
			if m == nil {
				ctx.Violation("differs-from-serial", "", nil)
				continue
			}
			ctx.Violation("differs-from-serial", fmt.Sprintf("GOMAXPROCS=%s mix %v with %v goroutines: %v returned %v concurrently, %v alone", procs, m["mix"], m["goroutines"], m["kind"], clip(fmt.Sprint(m["concurrent_digest"]), 16), clip(fmt.Sprint(m["serial_digest"]), 16)), m)
		}
		blocks := parseRaceLogs(filepath.Join(outDir, "C10-"+procs+".racelog*"))
		ctx.Count("race_report_blocks", len(blocks))
		seen := map[string]bool{}
		for _, blk := range blocks {
			key, inRepo := raceKey(blk)
			if !inRepo {
				ctx.Count("race_blocks_only_in_dependencies(observation)", 1)
				continue
			}
			if seen[key] {
				continue
			}
			seen[key] = true
			ctx.Mark("distinct_race_sites", key)
			ctx.Violation("data-race", fmt.Sprintf("data race (GOMAXPROCS=%s) between %s", procs, key), map[string]any{"race_report": clip(blk, 6000)})
		}
	}
	ctx.Extra["overlapping_pairs_total"] = totalOverlap
	ctx.MinDistinct = 50
	ctx.Finish()
}

// procCPUTicks: user+system clock ticks consumed so far by the process and its threads (0 if unknown).
func procCPUTicks(pid int) int64 {
	b, err := os.ReadFile(fmt.Sprintf("/proc/%d/stat", pid))
	if err != nil {
		return 0
	}
	s := string(b)
	if i := strings.LastIndex(s, ")"); i >= 0 {
		f := strings.Fields(s[i+1:])
		if len(f) > 13 {
			var u, k int64
			fmt.Sscan(f[11], &u)
			fmt.Sscan(f[12], &k)
			return u + k
		}
	}
	return 0
}

func last0(file string) string {
	b, _ := os.ReadFile(file)
	return string(b)
}

func firstFatal(s string) string {
	for _, l := range strings.Split(s, "\n") {
		if strings.HasPrefix(l, "fatal error") || strings.HasPrefix(l, "panic:") {
			return l
		}
	}
	if len(s) > 200 {
		return s[:200]
	}
	return s
}
