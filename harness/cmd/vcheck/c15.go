package main

import (
	"fmt"
	"math/rand"
	"reflect"
	"regexp"
	"strings"

	"verif/lib"

	"gopkg.in/yaml.v3"
)

func init() { checks["C15"] = c15 }

var exRef = regexp.MustCompile(`(^|[^A-Za-z0-9_.-])ex\.`)

// renamePrefix rewrites every compact IRI `ex.local` in s using choose() per occurrence.
func renamePrefix(s string, choose func() string) string {
	return exRef.ReplaceAllStringFunc(s, func(m string) string {
		return m[:len(m)-3] + choose() + "."
	})
}

func rewriteExpr(e lib.Expr, r *rand.Rand, ren func(string) string, shuffle bool) lib.Expr {
	switch v := e.(type) {
	case lib.PC:
		out := lib.PC{}
		entries := v.Entries
		if shuffle {
			entries = lib.Shuffled(r, entries)
		}
		for _, en := range entries {
			cs := en.Constraints
			if shuffle {
				cs = lib.Shuffled(r, cs)
			}
			ne := lib.PCEntry{Path: ren(en.Path)}
			for _, c := range cs {
				nc := c
				if c.Inner != nil {
					nc.Inner = rewriteExpr(c.Inner, r, ren, shuffle)
				}
				if sc, ok := c.Value.(lib.YScalar); ok && sc.IsStr && (strings.HasSuffix(c.Key, "Property") || c.Key == "datatype") {
					// `datatype: xsd.integer` uses a built-in prefix: only ex.* references are renamed
					sc.Text = ren(sc.Text)
					nc.Value = sc
				}
				ne.Constraints = append(ne.Constraints, nc)
			}
			out.Entries = append(out.Entries, ne)
		}
		return out
	case lib.AndE:
		items := v.Items
		if shuffle {
			items = lib.Shuffled(r, items)
		}
		out := lib.AndE{}
		for _, it := range items {
			out.Items = append(out.Items, rewriteExpr(it, r, ren, shuffle))
		}
		return out
	case lib.OrE:
		items := v.Items
		if shuffle {
			items = lib.Shuffled(r, items)
		}
		out := lib.OrE{}
		for _, it := range items {
			out.Items = append(out.Items, rewriteExpr(it, r, ren, shuffle))
		}
		return out
	case lib.NotE:
		return lib.NotE{Item: rewriteExpr(v.Item, r, ren, shuffle)}
	case lib.RawE:
		return v
	case lib.IfE:
		out := lib.IfE{If: rewriteExpr(v.If, r, ren, shuffle), Then: rewriteExpr(v.Then, r, ren, shuffle)}
		if v.Else != nil {
			out.Else = rewriteExpr(v.Else, r, ren, shuffle)
		}
		return out
	}
	return e
}

// shuffleYMap permutes the keys of every mapping of the document (recursively).
func shuffleYMap(n lib.YNode, r *rand.Rand) {
	switch v := n.(type) {
	case *lib.YMap:
		r.Shuffle(len(v.Keys), func(i, j int) {
			v.Keys[i], v.Keys[j] = v.Keys[j], v.Keys[i]
			v.Vals[i], v.Vals[j] = v.Vals[j], v.Vals[i]
		})
		for _, c := range v.Vals {
			shuffleYMap(c, r)
		}
	case *lib.YSeq:
		for _, c := range v.Items {
			shuffleYMap(c, r)
		}
	}
}

// spelling: one meaning-preserving rewriting of the profile; returns text and the list of rewrites applied.
func spelling(base *lib.ProfileDoc, r *rand.Rand) (string, []string, bool) {
	var applied []string
	p := &lib.ProfileDoc{Name: base.Name, HasViolation: base.HasViolation, HasWarning: base.HasWarning, HasInfo: base.HasInfo}
	// prefixes: consistent renaming / twin prefix bound to the same namespace
	mode := r.Intn(4)
	choose := func() string { return "ex" }
	switch mode {
	case 1:
		fresh := pick(r, "p9", "Zed", "my-prefix", "x1y2", "core", "core") // also the NAME of a built-in prefix, re-bound by the profile
		choose = func() string { return fresh }
		p.Prefixes = [][2]string{{fresh, lib.EX}}
		applied = append(applied, "prefix-renamed")
	case 2:
		choose = func() string { return pick(r, "ex", "twin") }
		p.Prefixes = [][2]string{{"ex", lib.EX}, {"twin", lib.EX}}
		applied = append(applied, "prefix-twin")
	default:
		p.Prefixes = [][2]string{{"ex", lib.EX}}
	}
	if r.Intn(3) == 0 { // built-in prefixes declared explicitly, unrelated prefixes added
		p.Prefixes = append(p.Prefixes, [2]string{"xsd", "http://www.w3.org/2001/XMLSchema#"}, [2]string{"unused", "http://unused.example/"})
		applied = append(applied, "builtin-prefix-redeclared")
	}
	extPrefix := "apiExt"
	if r.Intn(2) == 0 {
		// another prefix bound to the namespace of the built-in `apiExt`
		extPrefix = pick(r, "myext", "ext")
		p.Prefixes = append(p.Prefixes, [2]string{extPrefix, "http://a.ml/vocabularies/api-extension#"})
		applied = append(applied, "builtin-prefix-twin(apiExt)")
	}
	// the built-in prefix `core` (used by the base spelling without declaring it) may be written through a declared
	// twin; it must be when the profile re-binds the name `core` to its own namespace
	coreSpelling := "core"
	if choose() == "core" || r.Intn(3) == 0 {
		coreSpelling = "mycore"
		p.Prefixes = append(p.Prefixes, [2]string{"mycore", "http://a.ml/vocabularies/core#"})
		applied = append(applied, "builtin-prefix-twin(core)")
	}
	ren := func(s string) string {
		const guard = "\x00CORE\x00"
		t := strings.ReplaceAll(s, "core.", guard)
		t = strings.ReplaceAll(renamePrefix(t, choose), "apiExt.", extPrefix+".")
		return strings.ReplaceAll(t, guard, coreSpelling+".")
	}
	shuffle := r.Intn(4) != 0
	if shuffle {
		applied = append(applied, "operand/entry/constraint-order")
	}
	for _, v := range base.Validations {
		p.Validations = append(p.Validations, lib.Validation{Name: v.Name, TargetClass: ren(v.TargetClass), Message: ren(v.Message), Body: rewriteExpr(v.Body, r, ren, shuffle)})
	}
	p.Violation, p.Warning, p.Info = base.Violation, base.Warning, base.Info
	if r.Intn(2) == 0 {
		p.Violation, p.Warning, p.Info = lib.Shuffled(r, base.Violation), lib.Shuffled(r, base.Warning), lib.Shuffled(r, base.Info)
		applied = append(applied, "level-list-order")
	}
	doc := p.YAML()
	if r.Intn(4) != 0 {
		shuffleYMap(doc, r)
		applied = append(applied, "mapping-key-order")
	}
	plain := "#%Validation Profile 1.0\n" + lib.PrintYAML(doc, &lib.YPrintOpts{Indent: 2})
	opts := &lib.YPrintOpts{Indent: 2 + r.Intn(5)}
	if r.Intn(2) == 0 {
		depthMin := 1 + r.Intn(4)
		opts.Flow = func(depth int, n lib.YNode) bool { return depth >= depthMin && r.Intn(2) == 0 }
		applied = append(applied, "flow-style")
	}
	if r.Intn(2) == 0 {
		opts.Style = func(s lib.YScalar) lib.YStyle { return pick(r, lib.YPlain, lib.YSingle, lib.YDouble) }
		applied = append(applied, "quoting")
	}
	if r.Intn(2) == 0 {
		opts.Comment = func() string {
			if r.Intn(4) == 0 {
				return pick(r, "a comment", "propertyConstraints: {}", "violation: [x]", "not: really")
			}
			return ""
		}
		applied = append(applied, "comments")
	}
	if r.Intn(3) == 0 {
		opts.BlankLine = func() bool { return r.Intn(5) == 0 }
		applied = append(applied, "blank-lines")
	}
	if r.Intn(3) == 0 {
		opts.TrailSpace = func() bool { return r.Intn(4) == 0 }
		applied = append(applied, "trailing-spaces")
	}
	if opts.Indent != 2 {
		applied = append(applied, "indentation")
	}
	header := "#%Validation Profile 1.0\n"
	if r.Intn(3) == 0 {
		opts.DocStart = true
		applied = append(applied, "document-start-marker")
	}
	styled := header + lib.PrintYAML(doc, opts)
	// harness self-check: the styled text must say exactly what the plain print says
	var a, b any
	if yaml.Unmarshal([]byte(plain), &a) != nil || yaml.Unmarshal([]byte(styled), &b) != nil || !reflect.DeepEqual(a, b) {
		return "", nil, false
	}
	return styled, applied, true
}

func c15Base(r *rand.Rand, i int) (*lib.ProfileDoc, *lib.Graph) {
	prof := &lib.ProfileDoc{Name: fmt.Sprintf("c15-%d", i), Prefixes: [][2]string{{"ex", lib.EX}}}
	g := lib.NewGraph()
	for fam := 0; fam < 2; fam++ {
		w, root := lib.NewWorld(r, lib.WorldSpec{Base: fam * 1000, NAtoms: 1 + r.Intn(3), NQuants: r.Intn(3), QuantDepth: 2, MaxDepth: 3})
		for _, nd := range w.G.Nodes {
			nn := g.AddNode(nd.ID, nd.Types...)
			nn.Props = nd.Props
		}
		name := fmt.Sprintf("fam%d", fam)
		msg := "message of " + name
		if r.Intn(2) == 0 {
			msg = fmt.Sprintf("value {{ex.p%d}} of "+name, fam*1000)
		}
		prof.Validations = append(prof.Validations, lib.Validation{Name: name, TargetClass: fmt.Sprintf("ex.T%d", fam*1000), Message: msg, Body: w.ToExpr(root, r)})
		switch r.Intn(3) {
		case 0:
			prof.Violation = append(prof.Violation, name)
		case 1:
			prof.Warning = append(prof.Warning, name)
		default:
			prof.Info = append(prof.Info, name)
		}
	}
	if r.Intn(2) == 0 {
		// 6 to 14 quantified siblings in one mapping (each gets the next variable of the translator in the order of
		// writing): reordering the keys moves every body to another variable
		var kinds []lib.AtomKind
		for _, k := range lib.AtomKinds {
			if k.Name != "inFractional" { // known finding F16
				kinds = append(kinds, k)
			}
		}
		w, root := lib.NewSiblingWorld(r, 2000, 6+r.Intn(9), r.Intn(len(kinds)), kinds, r.Intn(3) == 0)
		for _, nd := range w.G.Nodes {
			nn := g.AddNode(nd.ID, nd.Types...)
			nn.Props = nd.Props
		}
		prof.Validations = append(prof.Validations, lib.Validation{Name: "siblings", TargetClass: "ex.T2000", Message: "message of siblings", Body: w.ToExpr(root, r)})
		prof.Violation = append(prof.Violation, "siblings")
	}
	// adversarial family: scalar VALUES that equal sibling KEYS of the profile language
	adv := g.AddNode(lib.EX+"adv1", lib.EX+"Adv")
	adv.Add(lib.EX+"word", lib.StrV(pick(r, "minCount", "pattern", "other")))
	adv2 := g.AddNode(lib.EX+"adv2", lib.EX+"Adv")
	adv2.Add(lib.EX+"word", lib.StrV("targetClass"))
	prof.Validations = append(prof.Validations,
		lib.Validation{Name: "value-equals-key", TargetClass: "ex.Adv", Message: pick(r, "targetClass", "propertyConstraints", "message"), Body: lib.PC1("ex.word", lib.CScalar("pattern", lib.Str("minCount")), lib.CScalar("minCount", lib.Int(1)))},
		lib.Validation{Name: "in-equals-key", TargetClass: "ex.Adv", Message: "in", Body: lib.PC1("ex.word", lib.CList("in", "pattern", "in", "targetClass"), lib.CScalar("maxCount", lib.Int(1)))})
	prof.Violation = append(prof.Violation, "value-equals-key")
	prof.Warning = append(prof.Warning, "in-equals-key")
	// embedded Rego operands under and/or: same path and message, different code
	regoOp := func(code string) lib.Expr { return lib.RawE{Map: lib.NewYMap().Set("rego", lib.Str(code))} }
	prof.Validations = append(prof.Validations, lib.Validation{Name: "rego-operands", TargetClass: "ex.Adv", Message: "rego operands",
		Body: lib.AndE{Items: []lib.Expr{
			regoOp(`$result = (object.get($node, "http://ex.org/word", null) != null)`),
			regoOp(`$result = (object.get($node, "http://ex.org/other", null) != null)`),
			regoOp(`$result = (object.get($node, "@id", null) != null)`)}}})
	prof.Info = append(prof.Info, "rego-operands")
	// embedded Rego operands under `or`, the first of which sets its own message; a property whose local name holds
	// the prefix name followed by a dot (a compact IRI is cut at its first dot, whatever the prefix is called)
	prof.Validations = append(prof.Validations, lib.Validation{Name: "rego-or-own-message", TargetClass: "ex.Adv", Message: "rego or",
		Body: lib.OrE{Items: []lib.Expr{
			regoOp("$message = \"text set by the code\"\n$result = (object.get($node, \"http://ex.org/word\", null) == \"no such word\")"),
			regoOp(`$result = (object.get($node, "http://ex.org/other", null) != null)`),
			lib.PC1("ex.word", lib.CScalar("pattern", lib.Str("^zzz")))}}},
		lib.Validation{Name: "dotted-local-name", TargetClass: "ex.Adv", Message: "index page", Body: lib.PC1("ex.index.html | ex.apex.x^", lib.CScalar("minCount", lib.Int(1)))})
	prof.Warning = append(prof.Warning, "rego-or-own-message", "dotted-local-name")
	adv.Add(lib.EX+"index.html", lib.StrV("page"))
	// custom domain property reached through the api-extension namespace
	for k := 0; k < 2; k++ {
		c := g.AddNode(fmt.Sprintf("%scust%d", lib.EX, k), lib.EX+"Cust")
		if k == 0 {
			c.Add("http://a.ml/vocabularies/document#customDomainProperties", lib.RefV(lib.EX+"decl/wadus"))
			c.Add(lib.EX+"decl/wadus", lib.RefV(lib.EX+"ann0"))
			a := g.AddNode(lib.EX+"ann0", "http://a.ml/vocabularies/data#Scalar")
			a.Add("http://a.ml/vocabularies/core#extensionName", lib.StrV("wadus"))
			a.Add("http://a.ml/vocabularies/data#value", lib.StrV("annotated"))
		}
	}
	prof.Validations = append(prof.Validations, lib.Validation{Name: "custom-property", TargetClass: "ex.Cust", Message: "needs the wadus annotation",
		Body: lib.PC1("apiExt.wadus", lib.CScalar("minCount", lib.Int(1)))},
		lib.Validation{Name: "custom-property-nested", TargetClass: "ex.Cust", Message: "annotation value",
			Body: lib.PC1("apiExt.wadus", lib.CNested(lib.PC1("data.value", lib.CScalar("pattern", lib.Str("^zzz")))))})
	prof.Violation = append(prof.Violation, "custom-property", "custom-property-nested")
	// a validation over a built-in vocabulary, written with the built-in prefix and no declaration
	for k := 0; k < 3; k++ {
		n := g.AddNode(fmt.Sprintf("%scorething%d", lib.EX, k), "http://a.ml/vocabularies/core#Thing")
		if k != 1 {
			n.Add("http://a.ml/vocabularies/core#name", lib.StrV(fmt.Sprintf("name%d", k)))
		}
	}
	prof.Validations = append(prof.Validations, lib.Validation{Name: "builtin-vocabulary", TargetClass: "core.Thing", Message: "thing {{core.name}} needs a name",
		Body: lib.PC1("core.name", lib.CScalar("minCount", lib.Int(1)), lib.CScalar("pattern", lib.Str("^name[02]$")))})
	prof.Warning = append(prof.Warning, "builtin-vocabulary")
	// names listed under a level without a definition under `validations` (they are ignored wherever they stand)
	for k := 0; k < r.Intn(3); k++ {
		ghost := fmt.Sprintf("not-defined-%d", k)
		for _, lv := range []*[]string{&prof.Violation, &prof.Warning, &prof.Info} {
			if r.Intn(2) == 0 {
				pos := r.Intn(len(*lv) + 1)
				*lv = append((*lv)[:pos:pos], append([]string{ghost}, (*lv)[pos:]...)...)
			}
		}
	}
	return prof, g
}

// C15: rewriting a profile without changing its meaning yields the same conforms flag and the same result set.
func c15(tier string) {
	ctx := lib.NewCtx("C15", tier)
	ctx.Rule = "profile ASTs (two random formula families with several quantified constraints per mapping + validations whose scalar values equal keys of the profile language) each written in N spellings composing: key order of every mapping, order of names in level lists, operand / entry / constraint order, consistent prefix renaming, a twin prefix bound to the same namespace chosen per occurrence, built-in prefixes re-declared, plain/single/double quoting of string scalars, flow vs block collections, comments, indentation 2-6, blank lines, trailing spaces, document start marker; spellings are verified by yaml.v3 (in the harness) to carry the same document as their plain print; result sets {(severity, validation, focus, message)} and conforms must equal the base spelling's; " +
		"non-trivial & distinct = (AST, spelling) with at least one result and at least two rewrites applied"
	ctx.Assumptions = []string{"numbers and booleans are never quoted; if/then/else roles are never exchanged; no duplicate keys; prefix names over [A-Za-z0-9-]"}
	nAst := ctx.N(110, 900)
	nSp := ctx.N(6, 16)
	if !ctx.IsShard() {
		ctx.RunShards()
		ctx.MinDistinct = 100
		for _, t := range []string{"prefix-renamed", "prefix-twin", "builtin-prefix-redeclared", "operand/entry/constraint-order", "level-list-order", "mapping-key-order", "flow-style", "quoting", "comments", "blank-lines", "trailing-spaces", "indentation", "document-start-marker", "builtin-prefix-twin(apiExt)", "builtin-prefix-twin(core)"} {
			if ctx.Counter("rewrite:"+t) == 0 {
				ctx.Inconclusive("rewrite never applied: " + t)
			}
		}
		ctx.Finish()
	}
	ctx.ForEach(nAst, func(i int) {
		r := lib.CaseRand(ctx.Seed, 15, i)
		base, g := c15Base(r, i)
		btext := base.Text()
		dtext := g.CanonicalJSONLD()
		ob := lib.Validate(btext, dtext)
		rb, err := parseOK(ob)
		if err != nil {
			ctx.Eval("")
			ctx.Violation("call-failed", "base spelling failed: "+err.Error(), map[string]any{"profile": btext, "data": dtext})
			return
		}
		refSet := rb.ResultSet()
		for s := 0; s < nSp; s++ {
			text, applied, ok := spelling(base, r)
			if !ok {
				ctx.Count("spellings_dropped_by_harness_selfcheck", 1)
				continue
			}
			for _, a := range applied {
				ctx.Count("rewrite:"+a, 1)
			}
			o := lib.Validate(text, dtext)
			bs := map[string]any{"profile": text, "data": dtext, "base_profile": btext, "rewrites": applied}
			rep, err := parseOK(o)
			if err != nil {
				ctx.Eval("")
				ctx.Violation("spelling-rejected", fmt.Sprintf("spelling (%s) of a valid profile failed: %v", strings.Join(applied, ","), err), bs)
				continue
			}
			set := rep.ResultSet()
			key := ""
			if len(set) > 0 && len(applied) >= 2 {
				key = fmt.Sprintf("%d/%d", i, s)
			}
			ctx.Eval(key)
			if rep.Conforms != rb.Conforms || !lib.SetEq(set, refSet) {
				bs["expected"] = readable(refSet)
				bs["observed"] = readable(set)
				ctx.Violation("result-set-differs", fmt.Sprintf("spelling (%s): conforms=%v %d results; base spelling: conforms=%v %d results; only in spelling %v; only in base %v",
					strings.Join(applied, ","), rep.Conforms, len(set), rb.Conforms, len(refSet), clipList(diff(set, refSet)), clipList(diff(refSet, set))), bs)
			}
			if rep.ProfileName != rb.ProfileName {
				ctx.Violation("profile-name-differs", "profileName differs between spellings", bs)
			}
			if i < 2 && s == 0 {
				ctx.Sample(map[string]any{"rewrites": applied, "spelling": clip(text, 900), "base": clip(btext, 500)})
			}
		}
	})
	ctx.FinishShard()
}
