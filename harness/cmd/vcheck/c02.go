package main

import (
	"fmt"
	"math/rand"
	"sort"
	"strings"

	"verif/lib"
)

func init() { checks["C02"] = c02 }

// the last name holds its own prefix followed by a dot ("...ex.html"): a compact IRI is cut at its FIRST dot
// local names as written in a path; `\\/` is the escaped spelling of a slash inside a name
var c02Preds = []string{"a", "b", "c", "d", "index.html", `seg\/ment`}
var c02Lits = []string{"s1", "s2", "s3"}

func genPath(r *rand.Rand, depth int, allowType bool) lib.Path {
	if depth == 3 && r.Intn(12) == 0 {
		// a branch of 10-14 steps (over two predicates, so that cyclic graphs give it values)
		items := make([]lib.Path, 10+r.Intn(5))
		for i := range items {
			items[i] = lib.Pred{Prefix: "ex", Local: c02Preds[r.Intn(2)], Inverse: r.Intn(4) == 0}
		}
		return lib.Seq{Items: items}
	}
	if depth <= 0 || r.Intn(3) == 0 {
		if allowType && r.Intn(8) == 0 {
			return lib.TypeStep{}
		}
		return lib.Pred{Prefix: "ex", Local: c02Preds[r.Intn(len(c02Preds))], Inverse: r.Intn(3) == 0}
	}
	n := 2 + r.Intn(2)
	items := make([]lib.Path, n)
	if r.Intn(2) == 0 {
		for i := range items {
			items[i] = genPath(r, depth-1, allowType && i == n-1)
		}
		return lib.Seq{Items: items}
	}
	for i := range items {
		items[i] = genPath(r, depth-1, allowType)
	}
	return lib.Alt{Items: items}
}

// shapeKey abstracts a path to its operator skeleton (for distinct-shape coverage).
func shapeKey(p lib.Path) string {
	switch v := p.(type) {
	case lib.Pred:
		if v.Inverse {
			return "i"
		}
		return "p"
	case lib.TypeStep:
		return "t"
	case lib.Seq:
		parts := make([]string, len(v.Items))
		for i, it := range v.Items {
			parts[i] = shapeKey(it)
		}
		return "S(" + strings.Join(parts, "") + ")"
	case lib.Alt:
		parts := make([]string, len(v.Items))
		for i, it := range v.Items {
			parts[i] = shapeKey(it)
		}
		return "A(" + strings.Join(parts, "") + ")"
	}
	return "?"
}

// adjacency coverage: (kind of step i, kind of step i+1, inside alternative?)
func adjacency(p lib.Path, inAlt bool, cover func(string)) {
	kind := func(x lib.Path) string {
		switch v := x.(type) {
		case lib.Pred:
			if v.Inverse {
				return "inv"
			}
			return "fwd"
		case lib.TypeStep:
			return "type"
		case lib.Seq:
			return "seq"
		case lib.Alt:
			return "alt"
		}
		return "?"
	}
	switch v := p.(type) {
	case lib.Seq:
		for i := 0; i+1 < len(v.Items); i++ {
			cover(fmt.Sprintf("%s>%s|alt=%t", kind(v.Items[i]), kind(v.Items[i+1]), inAlt))
		}
		for _, it := range v.Items {
			adjacency(it, inAlt, cover)
		}
	case lib.Alt:
		for _, it := range v.Items {
			cover(fmt.Sprintf("alt-member:%s", kind(it)))
			adjacency(it, true, cover)
		}
	}
}

// lastKinds: through which kinds of final step a path delivers its values ("fwd": link / literal, "inv": subject node).
func lastKinds(p lib.Path) map[string]bool {
	out := map[string]bool{}
	switch v := p.(type) {
	case lib.Pred:
		if v.Inverse {
			out["inv"] = true
		} else {
			out["fwd"] = true
		}
	case lib.TypeStep:
		out["fwd"] = true
	case lib.Seq:
		return lastKinds(v.Items[len(v.Items)-1])
	case lib.Alt:
		for _, it := range v.Items {
			for k := range lastKinds(it) {
				out[k] = true
			}
		}
	}
	return out
}

// denoteByKind: value key -> set of final-step kinds it is delivered through (to fingerprint known finding F3).
func denoteByKind(g *lib.Graph, p lib.Path, focus string, pfx map[string]string) map[string]map[string]bool {
	out := map[string]map[string]bool{}
	var rec func(p lib.Path, from lib.ValueSet) map[string]map[string]bool
	rec = func(p lib.Path, from lib.ValueSet) map[string]map[string]bool {
		res := map[string]map[string]bool{}
		add := func(k, kind string) {
			if res[k] == nil {
				res[k] = map[string]bool{}
			}
			res[k][kind] = true
		}
		switch v := p.(type) {
		case lib.Pred, lib.TypeStep:
			kind := "fwd"
			if pr, ok := v.(lib.Pred); ok && pr.Inverse {
				kind = "inv"
			}
			tmp := lib.ValueSet{}
			for k, x := range from {
				tmp[k] = x
			}
			for k := range denoteOne(g, p, tmp, pfx) {
				add(k, kind)
			}
		case lib.Seq:
			cur := from
			for i, it := range v.Items {
				if i == len(v.Items)-1 {
					return rec(it, cur)
				}
				cur = denoteOne(g, it, cur, pfx)
			}
		case lib.Alt:
			for _, it := range v.Items {
				for k, kinds := range rec(it, from) {
					for kind := range kinds {
						add(k, kind)
					}
				}
			}
		}
		return res
	}
	start := lib.ValueSet{}
	start.Add(lib.RefV(focus))
	for k, v := range rec(p, start) {
		out[k] = v
	}
	return out
}

func denoteOne(g *lib.Graph, p lib.Path, from lib.ValueSet, pfx map[string]string) lib.ValueSet {
	// Denote from a set: union over members that are nodes
	out := lib.ValueSet{}
	for _, src := range from {
		if !src.IsRef() {
			continue
		}
		for k, v := range lib.Denote(g, p, src.Ref, pfx) {
			out[k] = v
		}
	}
	return out
}

func c02Graph(r *rand.Rand) *lib.Graph { return c02GraphOpt(r, false) }

// c02GraphOpt: with blank, some non-target nodes are anonymous (blank node identifiers, relabelled by JSON-LD
// flattening; C02's probes identify nodes by a marker property, not by id).
func c02GraphOpt(r *rand.Rand, blank bool) *lib.Graph {
	g := lib.NewGraph()
	n := 4 + r.Intn(5)
	nT := 2 + r.Intn(3)
	ids := make([]string, n)
	for i := 0; i < n; i++ {
		ids[i] = fmt.Sprintf("%sg%d", lib.EX, i)
		if blank && i >= nT && r.Intn(3) == 0 {
			ids[i] = fmt.Sprintf("_:anon%d", i)
		}
		switch {
		case i < nT:
			types := []string{lib.EX + "T"}
			if r.Intn(3) == 0 {
				types = append(types, lib.EX+"Extra")
			}
			g.AddNode(ids[i], types...)
		case r.Intn(4) == 0:
			g.AddNode(ids[i]) // untyped
		default:
			g.AddNode(ids[i], lib.EX+"U")
		}
	}
	for i, id := range ids {
		node := g.Node(id)
		node.Add(lib.EX+"mark", lib.StrV(fmt.Sprintf("m%d", i)))
		for _, p := range c02Preds {
			if r.Intn(2) == 0 {
				continue
			}
			k := 1 + r.Intn(3)
			seen := map[string]bool{}
			for j := 0; j < k; j++ {
				var v lib.Value
				switch x := r.Intn(10); {
				case x < 6:
					v = lib.RefV(ids[r.Intn(n)]) // includes self-loops, cycles, shared children, diamonds
				case x < 8:
					v = lib.StrV(c02Lits[r.Intn(len(c02Lits))]) // literal, possibly in mid-path
					if r.Intn(5) == 0 && !strings.HasPrefix(ids[0], "_:") {
						v = lib.StrV(ids[r.Intn(nT)]) // a literal that spells the IRI of a node: a string, not a link
					}
				case x < 9:
					v = lib.IntV(int64(40 + r.Intn(3)))
				default:
					v = lib.RefV(fmt.Sprintf("%sghost%d", lib.EX, r.Intn(2))) // dangling reference
				}
				if !seen[v.Key()] {
					seen[v.Key()] = true
					node.Add(lib.EX+strings.ReplaceAll(p, `\/`, "/"), v)
				}
			}
		}
	}
	return g
}

// C02: the values a constraint is applied to are exactly the path's denotation. The denotation is decoded
// from verdicts only: per graph node a `nested` probe on a unique marker, per literal a containsAll probe,
// and a ladder of maxCount probes for the number of distinct values.
func c02(tier string) {
	ctx := lib.NewCtx("C02", tier)
	ctx.Rule = "seeded random path ASTs (depth<=3, width<=3; / | ^ parentheses @type) x random graphs (cycles, self-loops, shared children, diamonds, mid-path literals, dangling refs); " +
		"per (path, graph): membership of every node (nested probe), of every literal (containsAll probe) and the distinct-value count (maxCount ladder) are decoded from reported focus nodes and compared with the reference denotation; " +
		"non-trivial & distinct = (path shape, graph) pair whose denotation is non-empty for some focus node and whose path has >=2 steps"
	ctx.Assumptions = []string{
		"path strings are printed with the documented precedence (| tighter than /), spaces around /",
		"literal membership is judged only where the value set is non-empty (containsAll does not apply to empty sets by design)",
		"the reference denotation is the harness's reading of the statement of C02",
	}
	nCases := ctx.N(160, 2000)
	const K = 16
	if !ctx.IsShard() {
		ctx.RunShards()
	} else {
		c02Workload(ctx, nCases, K)
		ctx.FinishShard()
	}
	adj := ctx.CountersWithPrefix("adj:")
	ctx.Extra["distinct_path_shapes"] = ctx.SetSize("path_shapes")
	for _, need := range []string{"fwd>inv|alt=false", "inv>fwd|alt=false", "alt>fwd|alt=false", "fwd>alt|alt=false", "alt>inv|alt=false", "alt-member:seq", "alt-member:inv", "seq>fwd|alt=true"} {
		if adj[need] == 0 {
			ctx.Inconclusive("step adjacency never generated: " + need)
		}
	}
	ctx.MinDistinct = 50
	ctx.Finish()
}

func c02Workload(ctx *lib.Ctx, nCases, K int) {
	ctx.ForEach(nCases, func(i int) {
		r := lib.CaseRand(ctx.Seed, 3, i)
		g := c02GraphOpt(r, (i/16)%3 == 1)
		if (i/16)%3 == 1 {
			ctx.Count("graphs_with_anonymous_nodes", 1)
		}
		pfx := map[string]string{"ex": lib.EX}
		type probe struct {
			p       lib.Path
			text    string
			variant bool
		}
		var probes []probe
		for k := 0; k < 2; k++ {
			p := genPath(r, 1+r.Intn(3), true)
			text := lib.PrintPath(p)
			variant := false
			if r.Intn(2) == 0 {
				variant = true
				text = lib.PrintPathVariant(p, &lib.PathPrintOpts{
					ExtraParens: func() bool { return r.Intn(4) == 0 },
					Space:       func() string { return pick(r, " ", "", "  ") },
				})
			}
			probes = append(probes, probe{p, text, variant})
		}
		// the vocabulary of graph and profile alternates inside every worker; the model keeps working over the example namespace
		ns := lib.Namespaces[(i/16)%len(lib.Namespaces)]
		ctx.Count("namespace:"+ns, 1)
		prof := &lib.ProfileDoc{Name: fmt.Sprintf("c02-%d", i), Prefixes: [][2]string{{"ex", ns}}}
		allMarks := []string{}
		for j := range g.Nodes {
			allMarks = append(allMarks, fmt.Sprintf("m%d", j))
		}
		add := func(name string, body lib.Expr) {
			prof.Validations = append(prof.Validations, lib.Validation{Name: name, TargetClass: "ex.T", Message: name, Body: body})
			prof.Violation = append(prof.Violation, name)
		}
		for pi, pr := range probes {
			for k := 0; k <= K; k++ {
				add(fmt.Sprintf("p%d_le%d", pi, k), lib.PC1(pr.text, lib.CScalar("maxCount", lib.Int(k))))
			}
			for j := range g.Nodes {
				var others []string
				for jj, m := range allMarks {
					if jj != j {
						others = append(others, m)
					}
				}
				add(fmt.Sprintf("p%d_nd%d", pi, j), lib.PC1(pr.text, lib.CNested(lib.PC1("ex.mark", lib.CList("in", others...)))))
			}
			for j, l := range c02Lits {
				add(fmt.Sprintf("p%d_lt%d", pi, j), lib.PC1(pr.text, lib.CList("containsAll", l)))
			}
		}
		ptext := prof.Text()
		dtext := lib.Rebase(g.CanonicalJSONLD(), lib.EX, ns)
		o := lib.Validate(ptext, dtext)
		o.Report = lib.Rebase(o.Report, ns, lib.EX)
		func() {
			base := map[string]any{"profile": ptext, "data": dtext}
			if o.Failed() {
				ctx.Eval("")
				what := fmt.Sprintf("paths %q / %q: validation failed: %s", probes[0].text, probes[1].text, o.ErrString())
				ctx.Violation("call-failed", what, base)
				return
			}
			rep, err := lib.ParseReport(o.Report)
			if err != nil {
				ctx.Eval("")
				ctx.Violation("bad-report", err.Error(), base)
				return
			}
			for pi, pr := range probes {
				ctx.Mark("path_shapes", shapeKey(pr.p))
				adjacency(pr.p, false, func(k string) { ctx.Count("adj:"+k, 1) })
				nonEmpty := false
				for _, f := range g.OfType(lib.EX + "T") {
					D := lib.Denote(g, pr.p, f.ID, pfx)
					if len(D) > 0 {
						nonEmpty = true
					}
					ctx.Count("focus_nodes_judged", 1)
					// count channel
					obsCount := -1
					for k := 0; k <= K; k++ {
						if !rep.Reported(fmt.Sprintf("p%d_le%d", pi, k), f.ID) {
							obsCount = k
							break
						}
					}
					// monotonic ladder sanity
					var expNodes, obsNodes, expLits, obsLits []string
					for j, n := range g.Nodes {
						if rep.Reported(fmt.Sprintf("p%d_nd%d", pi, j), f.ID) {
							obsNodes = append(obsNodes, n.ID)
						}
					}
					expNodes = lib.NodesOf(g, D)
					sort.Strings(obsNodes)
					sort.Strings(expNodes)
					for j, l := range c02Lits {
						if _, ok := D[lib.StrV(l).Key()]; ok {
							expLits = append(expLits, l)
						}
						if obsCount != 0 && len(D) != 0 && !rep.Reported(fmt.Sprintf("p%d_lt%d", pi, j), f.ID) {
							obsLits = append(obsLits, l)
						}
					}
					if len(D) == 0 || obsCount == 0 {
						expLits, obsLits = nil, nil // literal channel not judged on empty value sets
					}
					rp := map[string]any{"profile": ptext, "data": dtext, "path": pr.text, "path_structure": lib.CanonPath(pr.p), "focus": f.ID,
						"expected": map[string]any{"values": D.Keys(), "count": len(D), "nodes": expNodes, "literals": expLits},
						"observed": map[string]any{"count": obsCount, "nodes": obsNodes, "literals": obsLits}}
					if !lib.SetEq(obsNodes, expNodes) {
						ctx.Violation("node-set", fmt.Sprintf("path %q from %s: nodes reached %v, denotation has %v", pr.text, short1(f.ID), short(obsNodes), short(expNodes)), rp)
					}
					if !lib.SetEq(obsLits, expLits) {
						ctx.Violation("literal-set", fmt.Sprintf("path %q from %s: literals seen %v, denotation has %v", pr.text, short1(f.ID), obsLits, expLits), rp)
					}
					if obsCount == -1 && len(D) > K {
						ctx.Count("count_ladder_overflow_not_judged", 1)
					} else if obsCount != len(D) {
						// known finding F3: a node delivered both as a link (forward last step) and as a subject (inverse last step) counts twice
						reprs := 0
						both := false
						for _, kinds := range denoteByKind(g, pr.p, f.ID, pfx) {
							reprs += len(kinds)
							if len(kinds) > 1 {
								both = true
							}
						}
						if both && (obsCount == reprs || obsCount == -1 && reprs > K) && lib.SetEq(obsNodes, expNodes) {
							ctx.Count("known_F3_double_count_cases", 1)
							ctx.Violation("count-forward-and-inverse-route", "", rp)
						} else {
							ctx.Violation("count", fmt.Sprintf("path %q from %s: %d distinct values counted, denotation has %d %v", pr.text, short1(f.ID), obsCount, len(D), D.Keys()), rp)
						}
					}
				}
				key := ""
				if nonEmpty && shapeKey(pr.p) != "p" && shapeKey(pr.p) != "i" {
					key = lib.CanonPath(pr.p) + "@" + fmt.Sprint(i)
				}
				ctx.Eval(key)
				if pr.variant {
					ctx.Count("paths_printed_with_redundant_parens_or_spacing", 1)
				}
			}
			if i < 3 {
				ctx.Sample(map[string]any{"path": probes[0].text, "structure": lib.CanonPath(probes[0].p), "graph_nodes": len(g.Nodes),
					"denotation_from_first_focus": lib.Denote(g, probes[0].p, g.OfType(lib.EX + "T")[0].ID, pfx).Keys()})
			}
		}()
	})
}

func short1(s string) string { return strings.TrimPrefix(s, lib.EX) }

func pick[T any](r *rand.Rand, xs ...T) T { return xs[r.Intn(len(xs))] }
