package main

import (
	"encoding/json"
	"fmt"
	"math/rand"
	"reflect"
	"sort"
	"strings"
	"time"

	"verif/lib"

	"github.com/aml-org/amf-custom-validator/pkg/config"
)

func init() { checks["C03"] = c03 }

type c03Case struct {
	prof     *lib.ProfileDoc
	g        *lib.Graph
	expected []string // sorted (severity, name, focus) keys
	levels   map[string][]string
}

func sevOf(level string) string {
	return strings.ToUpper(level[:1]) + level[1:]
}

// genLevelsCase draws a profile whose validations are single atoms with by-construction truth per node.
func genLevelsCase(r *rand.Rand, i int) c03Case {
	nVal := r.Intn(7)
	nNodes := r.Intn(6)
	w := &lib.World{G: lib.NewGraph(), Truth: map[string]map[int]bool{}, R: r}
	name := fmt.Sprintf("c03 profile %d", i)
	switch r.Intn(8) { // the profile's name is whatever string the author wrote, padding included
	case 0:
		name = "  " + name + "  "
	case 1:
		name = name + "\t"
	case 2:
		name = name + "\n"
	case 3:
		name = " "
	}
	prof := &lib.ProfileDoc{Name: name, Prefixes: [][2]string{{"ex", lib.EX}}}
	names := make([]string, nVal)
	kinds := make([]lib.AtomKind, nVal)
	for v := 0; v < nVal; v++ {
		names[v] = fmt.Sprintf("val%d", v)
		for {
			kinds[v] = lib.AtomKinds[r.Intn(len(lib.AtomKinds))]
			if kinds[v].Name != "inFractional" { // listed known finding F16 (C01): its truth is not the classical one
				break
			}
		}
	}
	truth := map[string][]bool{}
	for n := 0; n < nNodes; n++ {
		node := w.G.AddNode(fmt.Sprintf("%st%d", lib.EX, n), lib.EX+"T")
		tv := make([]bool, nVal)
		for v := 0; v < nVal; v++ {
			tv[v] = r.Intn(2) == 0
			kinds[v].Assign(node, v, tv[v], r)
		}
		truth[node.ID] = tv
	}
	w.G.AddNode(lib.EX+"other", lib.EX+"U")
	defined := map[string]bool{}
	for v := 0; v < nVal; v++ {
		if r.Intn(8) == 0 {
			continue // listed (maybe) but not defined
		}
		defined[names[v]] = true
		prof.Validations = append(prof.Validations, lib.Validation{Name: names[v], TargetClass: "ex.T", Message: "message of " + names[v],
			Body: lib.PC1(lib.PName(v), kinds[v].Constraint(v)...)})
	}
	levels := map[string][]string{}
	for v := 0; v < nVal; v++ {
		switch r.Intn(10) {
		case 0: // defined but not listed
		case 1: // one name in two levels
			a, b := pick(r, "violation", "warning", "info"), pick(r, "violation", "warning", "info")
			levels[a] = append(levels[a], names[v])
			if b != a {
				levels[b] = append(levels[b], names[v])
			}
		case 2: // twice in one level
			a := pick(r, "violation", "warning", "info")
			levels[a] = append(levels[a], names[v], names[v])
		default:
			a := pick(r, "violation", "warning", "info")
			levels[a] = append(levels[a], names[v])
		}
	}
	if r.Intn(6) == 0 {
		a := pick(r, "violation", "warning", "info")
		levels[a] = append(levels[a], "ghost-validation") // listed, never defined
	}
	prof.Violation, prof.Warning, prof.Info = levels["violation"], levels["warning"], levels["info"]
	// empty level lists are sometimes written out, sometimes the key is missing
	prof.HasViolation, prof.HasWarning, prof.HasInfo = r.Intn(2) == 0, r.Intn(2) == 0, r.Intn(2) == 0
	set := map[string]bool{}
	for _, lvl := range []string{"violation", "warning", "info"} {
		for _, name := range levels[lvl] {
			if !defined[name] {
				continue
			}
			var v int
			fmt.Sscanf(name, "val%d", &v)
			for id, tv := range truth {
				if !tv[v] {
					set[sevOf(lvl)+"\x00"+name+"\x00"+id] = true
				}
			}
		}
	}
	exp := lib.SortedKeys(set)
	return c03Case{prof: prof, g: w.G, expected: exp, levels: levels}
}

type cfgChoice struct {
	include bool
	clock   time.Time
	report  string
	lexical string
}

func genCfg(r *rand.Rand) cfgChoice {
	clocks := []time.Time{
		time.Unix(0, 0).UTC(),
		time.Date(2999, 12, 31, 23, 59, 59, 0, time.UTC),
		time.Date(2021, 3, 4, 5, 6, 7, 0, time.FixedZone("X", 5*3600+1800)),
		time.Date(2000, 11, 28, 0, 0, 0, 0, time.UTC),
		time.Date(1969, 7, 20, 20, 17, 40, 0, time.FixedZone("W", -4*3600)),
		{}, // Go's zero instant is an instant like any other
		time.Time{}.In(time.FixedZone("E", 2*3600)),
		time.Date(9999, 12, 31, 23, 59, 59, 0, time.UTC),
	}
	iris := []string{"file:///dialects/validation-report.yaml", "", "http://example.org/schemas/report#x", "urn:x:y"}
	return cfgChoice{include: r.Intn(2) == 0, clock: clocks[r.Intn(len(clocks))], report: iris[r.Intn(len(iris))], lexical: iris[r.Intn(len(iris))]}
}

// stripConfig removes everything the report configuration is allowed to influence.
func stripConfig(root []any) any {
	b, _ := json.Marshal(root)
	var cp []any
	_ = json.Unmarshal(b, &cp)
	inst := cp[0].(map[string]any)
	if c, ok := inst["@context"].(map[string]any); ok {
		delete(c, "reportSchema")
		delete(c, "lexicalSchema")
	}
	if enc, ok := inst["doc:encodes"].([]any); ok && len(enc) == 1 {
		if n, ok := enc[0].(map[string]any); ok {
			delete(n, "dateCreated")
		}
	}
	return cp
}

func c03(tier string) {
	ctx := lib.NewCtx("C03", tier)
	ctx.Rule = "seeded profiles distributing 0-6 single-atom validations over violation/warning/info (empty levels, missing level keys, names listed but undefined, defined but unlisted, one name in two levels, twice in one level) x graphs with 0-5 target nodes x report configurations (creation time on/off, 5 clocks incl. non-UTC zones, 4 schema IRIs) through the four Validate* entry points; " +
		"non-trivial & distinct = (profile, graph, configuration) triple with at least one expected result"
	ctx.Assumptions = []string{"configured clocks have whole seconds (RFC 3339 without fractional part)", "truth of each validation on each node is known by construction (single atoms on single-valued properties)"}
	n := ctx.N(1280, 12000)
	if !ctx.IsShard() {
		ctx.RunShards()
	} else {
		c03Workload(ctx, n)
		ctx.FinishShard()
	}
	ctx.MinDistinct = 50
	ctx.Finish()
}

type c03Seen struct {
	ptext, dtext, name string
	expected           []string
}

func c03Workload(ctx *lib.Ctx, n int) {
	var early []c03Seen
	defer func() {
		// the first profiles of this worker again, after all the others were compiled in between (>= 40 distinct
		// profile texts): what a profile means must not depend on how many other profiles the process has seen
		for _, e := range early {
			o := lib.Validate(e.ptext, e.dtext)
			ctx.Count("profiles_revisited_after_many_others", 1)
			rep, err := parseOK(o)
			base := map[string]any{"profile": e.ptext, "data": e.dtext, "expected": e.expected}
			if err != nil {
				ctx.Violation("call-failed", "revisited profile: "+err.Error(), base)
				continue
			}
			got := map[string]bool{}
			for _, x := range rep.Results {
				got[x.Severity+"\x00"+x.Name+"\x00"+x.Focus] = true
			}
			if g := lib.SortedKeys(got); !lib.SetEq(g, e.expected) || rep.ProfileName != e.name {
				ctx.Violation("results", fmt.Sprintf("profile %q validated again after many other profiles: profileName %q, results %q, expected %q", e.name, rep.ProfileName, readable(g), readable(e.expected)), base)
			}
		}
	}()
	ctx.ForEach(n, func(i int) {
		r := lib.CaseRand(ctx.Seed, 4, i)
		c := genLevelsCase(r, i)
		ptext, dtext := c.prof.Text(), c.g.CanonicalJSONLD()
		if len(early) < 10 {
			early = append(early, c03Seen{ptext, dtext, c.prof.Name, c.expected})
		}
		cfgA, cfgB := genCfg(r), genCfg(r)
		entry := r.Intn(3)
		run := func(cf cfgChoice) lib.Outcome {
			vc := lib.FixedClock{T: cf.clock}
			rc := config.ReportConfiguration{IncludeReportCreationTime: cf.include, ReportSchemaIri: cf.report, LexicalSchemaIri: cf.lexical}
			if entry == 0 {
				return lib.ValidateCfg(ptext, dtext, nil, vc, rc)
			}
			cp := lib.Compile(ptext, nil)
			if cp.Failed() {
				return lib.Outcome{Err: fmt.Errorf("compile: %s", cp.ErrString())}
			}
			return lib.ValidateCompiledCfg(cp.Q, dtext, nil, vc, rc)
		}
		oa, ob := run(cfgA), run(cfgB)
		var od lib.Outcome
		if entry == 2 {
			od = lib.ValidateDefault(ptext, dtext, nil)
		}
		func() {
			base := map[string]any{"profile": ptext, "data": dtext, "expected": c.expected, "levels": c.levels}
			key := ""
			if len(c.expected) > 0 {
				key = fmt.Sprintf("%d", i)
			}
			ctx.Eval(key)
			check := func(o lib.Outcome, cf *cfgChoice, label string) *lib.Report {
				if o.Failed() {
					ctx.Violation("call-failed", label+": "+o.ErrString(), base)
					return nil
				}
				rep, err := lib.ParseReport(o.Report)
				if err != nil {
					ctx.Violation("bad-report", label+": "+err.Error(), base)
					return nil
				}
				// result set with severities
				got := map[string]bool{}
				for _, x := range rep.Results {
					got[x.Severity+"\x00"+x.Name+"\x00"+x.Focus] = true
				}
				g := lib.SortedKeys(got)
				if !lib.SetEq(g, c.expected) {
					ctx.Violation("results", fmt.Sprintf("%s: results %q expected %q", label, readable(g), readable(c.expected)), base)
				}
				expConf := true
				for _, e := range c.expected {
					if strings.HasPrefix(e, "Violation\x00") {
						expConf = false
					}
				}
				if rep.Conforms != expConf {
					ctx.Violation("conforms", fmt.Sprintf("%s: conforms=%v but results are %q", label, rep.Conforms, readable(g)), base)
				}
				if rep.HasResult != (len(rep.Results) > 0) || rep.HasResult != (len(c.expected) > 0) {
					ctx.Violation("result-key", fmt.Sprintf("%s: result key present=%v with %d results (expected %d)", label, rep.HasResult, len(rep.Results), len(c.expected)), base)
				}
				if rep.ProfileName != c.prof.Name {
					ctx.Violation("profile-name", fmt.Sprintf("%s: profileName %q, profile is named %q", label, rep.ProfileName, c.prof.Name), base)
				}
				if cf != nil {
					if cf.include != (rep.DateCreated != nil) {
						ctx.Violation("date-presence", fmt.Sprintf("%s: dateCreated present=%v, configuration asks %v", label, rep.DateCreated != nil, cf.include), base)
					} else if cf.include {
						t, err := time.Parse(time.RFC3339, *rep.DateCreated)
						if err != nil || !t.Equal(cf.clock) {
							ctx.Violation("date-value", fmt.Sprintf("%s: dateCreated %q, configured instant %s", label, *rep.DateCreated, cf.clock.Format(time.RFC3339)), base)
						}
					}
				} else if rep.DateCreated == nil {
					ctx.Violation("date-presence", label+": default configuration must include dateCreated", base)
				} else if _, err := time.Parse(time.RFC3339, *rep.DateCreated); err != nil {
					ctx.Violation("date-value", label+": dateCreated does not parse: "+*rep.DateCreated, base)
				}
				ctx.Count("reports_checked", 1)
				if expConf && len(c.expected) > 0 {
					ctx.Count("conforming_reports_with_warnings_or_infos", 1)
				}
				return rep
			}
			ra := check(oa, &cfgA, "config A")
			rb := check(ob, &cfgB, "config B")
			if entry == 2 {
				check(od, nil, "default config")
			}
			if ra != nil && rb != nil {
				if !reflect.DeepEqual(stripConfig(ra.Root), stripConfig(rb.Root)) {
					ctx.Violation("config-leak", fmt.Sprintf("reports under two report configurations differ beyond dateCreated and the schema declarations (A=%+v B=%+v)", cfgA, cfgB), base)
				}
				ctx.Count("config_pairs_compared", 1)
			}
			if i < 3 {
				ctx.Sample(map[string]any{"levels": c.levels, "expected_results": readable(c.expected), "configA": fmt.Sprintf("%+v", cfgA), "entry_point": []string{"ValidateWithConfiguration", "CompileProfile+ValidateCompiledWithConfiguration", "…+Validate"}[entry]})
			}
		}()
	})
}

func readable(keys []string) []string {
	out := make([]string, len(keys))
	for i, k := range keys {
		out[i] = strings.ReplaceAll(strings.ReplaceAll(k, "\x00", "|"), lib.EX, "")
	}
	sort.Strings(out)
	return out
}
