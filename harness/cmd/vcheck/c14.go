package main

import (
	"encoding/json"
	"fmt"
	"math/big"

	"verif/lib"
)

func init() { checks["C14"] = c14 }

func c14Profile() *lib.ProfileDoc {
	p := &lib.ProfileDoc{Name: "c14", Prefixes: [][2]string{{"ex", lib.EX}}}
	missing := lib.PC1("ex.nothing", lib.CScalar("minCount", lib.Int(1)))
	add := func(level, name string, body lib.Expr, target string) {
		p.Validations = append(p.Validations, lib.Validation{Name: name, TargetClass: target, Message: "message " + name, Body: body})
		switch level {
		case "v":
			p.Violation = append(p.Violation, name)
		case "w":
			p.Warning = append(p.Warning, name)
		default:
			p.Info = append(p.Info, name)
		}
	}
	add("v", "plain", missing, "ex.T")
	add("w", "plainU", missing, "ex.U")
	add("v", "nested-alt", lib.PC1("ex.a | ex.b", lib.CNested(missing)), "ex.T")
	add("i", "or-branches", lib.OrE{Items: []lib.Expr{missing, lib.PC1("ex.nothing2", lib.CScalar("minCount", lib.Int(1))), lib.PC1("ex.mark", lib.CScalar("pattern", lib.Str("^zzz")))}}, "ex.T")
	add("w", "inverse", lib.PC1("ex.a^", lib.CNested(missing)), "ex.T")
	add("v", "nested-nested", lib.PC1("ex.c", lib.CNested(lib.PC1("ex.d | ex.a", lib.CNested(missing)))), "ex.T")
	add("i", "atleast", lib.PC1("ex.b", lib.CAtLeast(9, missing)), "ex.T")
	return p
}

func numEq(v any, want string) bool {
	n, ok := v.(json.Number)
	if !ok {
		return false
	}
	a, ok1 := new(big.Int).SetString(want, 10)
	if !ok1 {
		return false
	}
	// the report may print an integer in any JSON number spelling; compare exact values
	r, ok2 := new(big.Rat).SetString(n.String())
	if !ok2 {
		return false
	}
	return r.IsInt() && r.Num().Cmp(a) == 0
}

// checkLocation compares one location node with the recorded truth; returns "" when it matches.
func checkLocation(loc any, want lib.SMLoc) string {
	m, ok := loc.(map[string]any)
	if !ok {
		return "location is not an object"
	}
	if u, _ := m["uri"].(string); u != want.URI {
		return fmt.Sprintf("uri %q, node was declared in %q", m["uri"], want.URI)
	}
	rg, ok := m["range"].(map[string]any)
	if !ok {
		return "range missing"
	}
	st, _ := rg["start"].(map[string]any)
	en, _ := rg["end"].(map[string]any)
	if st == nil || en == nil {
		return "start/end missing"
	}
	if !numEq(st["line"], want.StartLine) || !numEq(st["column"], want.StartCol) || !numEq(en["line"], want.EndLine) || !numEq(en["column"], want.EndCol) {
		return fmt.Sprintf("range (%v,%v)-(%v,%v), recorded [(%s,%s)-(%s,%s)]", st["line"], st["column"], en["line"], en["column"], want.StartLine, want.StartCol, want.EndLine, want.EndCol)
	}
	return ""
}

// C14: locations reproduce the lexical source maps; nodes without entry and data without maps carry no location
// and are otherwise unaffected.
func c14(tier string) {
	ctx := lib.NewCtx("C14", tier)
	ctx.Rule = "random cyclic graphs decorated with AMF-shaped source maps (line/column magnitudes 0..30 digits incl. 2^31, 2^32+1, 2^53+1; equal start/end; nodes in the root file, in one of 0-3 additional files, all in one additional file; nodes with property-level entries only; nodes without entries; entry order shuffled) validated with 7 validations (plain, alternative+nested, or-branches, inverse, nested-in-nested, atLeast) on three levels; every result, sub-result and trace is compared with the recorded truth, and the result set is compared with the undecorated data's; " +
		"non-trivial & distinct = decorated graph with at least one located and one unlocated result"
	ctx.Assumptions = []string{"at most one node-level lexical entry per node, each node listed in at most one additional location; when the data has lexical entries but no source information node (1 document in 6) the uri is not judged, presence and range are",
		"a trace is about the focus node of the result (or sub-result) that holds it"}
	n := ctx.N(1200, 20000)
	if !ctx.IsShard() {
		ctx.RunShards()
		ctx.MinDistinct = 40
		ctx.Finish()
	}
	prof := c14Profile()
	ptext := prof.Text()
	cp := lib.Compile(ptext, nil)
	if cp.Failed() {
		ctx.Violation("call-failed", "profile does not compile: "+cp.ErrString(), map[string]any{"profile": ptext})
		ctx.FinishShard()
	}
	ctx.ForEach(n, func(i int) {
		r := lib.CaseRand(ctx.Seed, 14, i)
		g := c02Graph(r)
		sm := lib.DecorateWithSourceMaps(g, r)
		plain := g.CanonicalJSONLD()
		var od, op lib.Outcome
		if i%2 == 0 {
			od, op = lib.Validate(ptext, sm.Text), lib.Validate(ptext, plain)
		} else {
			od, op = lib.ValidateCompiled(cp.Q, sm.Text), lib.ValidateCompiled(cp.Q, plain)
		}
		base := map[string]any{"profile": ptext, "data": sm.Text, "undecorated_data": plain}
		if od.Failed() || op.Failed() {
			ctx.Eval("")
			ctx.Violation("call-failed", "validation failed: "+od.ErrString()+" / "+op.ErrString(), base)
			return
		}
		rd, err1 := lib.ParseReport(od.Report)
		rp, err2 := lib.ParseReport(op.Report)
		if err1 != nil || err2 != nil {
			ctx.Eval("")
			ctx.Violation("bad-report", fmt.Sprint(err1, err2), base)
			return
		}
		located, unlocated := 0, 0
		var walk func(m map[string]any, where string)
		walk = func(m map[string]any, where string) {
			focus, _ := m["focusNode"].(string)
			want, has := sm.Loc[focus]
			checkOne := func(x map[string]any, w string) {
				loc, present := x["location"]
				ctx.Count("location_slots_checked", 1)
				switch {
				case has && !present:
					ctx.Violation("location-missing", fmt.Sprintf("%s about %s has no location although the node has the lexical entry [(%s,%s)-(%s,%s)] in %s", w, short1(focus), want.StartLine, want.StartCol, want.EndLine, want.EndCol, want.URI), base)
				case !has && present:
					ctx.Violation("location-invented", fmt.Sprintf("%s about %s carries a location although the node has no node-level lexical entry (property-level only: %v)", w, short1(focus), sm.PropOnly[focus]), base)
				case has:
					if sm.NoFileInformation {
						if lm, ok := loc.(map[string]any); ok {
							want.URI, _ = lm["uri"].(string) // not specified without file information: only presence and range are judged
						}
						ctx.Count("locations_judged_without_file_information", 1)
					}
					if d := checkLocation(loc, want); d != "" {
						ctx.Violation("location-wrong", fmt.Sprintf("%s about %s: %s", w, short1(focus), d), base)
					}
					located++
					ctx.Mark("magnitudes_seen", fmt.Sprintf("%d digits", len(want.StartLine)))
				default:
					unlocated++
				}
			}
			checkOne(m, where)
			if tr, ok := m["trace"].([]any); ok {
				for j, t := range tr {
					tm, ok := t.(map[string]any)
					if !ok {
						continue
					}
					checkOne(tm, fmt.Sprintf("%s.trace[%d]", where, j))
					if tv, ok := tm["traceValue"].(map[string]any); ok {
						if subs, ok := tv["subResult"].([]any); ok {
							for k, s := range subs {
								if sm2, ok := s.(map[string]any); ok {
									ctx.Count("sub_results_checked", 1)
									walk(sm2, fmt.Sprintf("%s.trace[%d].subResult[%d]", where, j, k))
								}
							}
						}
					}
				}
			}
		}
		for k, res := range rd.Results {
			walk(res.Raw, fmt.Sprintf("result[%d]", k))
		}
		// undecorated data: no location anywhere, same results
		var noloc func(x any) bool
		noloc = func(x any) bool {
			switch v := x.(type) {
			case map[string]any:
				if _, ok := v["location"]; ok {
					return false
				}
				for k, e := range v {
					if k != "@context" && !noloc(e) {
						return false
					}
				}
			case []any:
				for _, e := range v {
					if !noloc(e) {
						return false
					}
				}
			}
			return true
		}
		if !noloc(any(rp.Root)) {
			ctx.Violation("location-without-source-maps", "data without source maps produced a location", base)
		}
		if rd.Conforms != rp.Conforms || !lib.SetEq(rd.ResultSet(), rp.ResultSet()) {
			ctx.Violation("results-affected-by-source-maps", fmt.Sprintf("decorated data: conforms=%v %d results; undecorated: conforms=%v %d results", rd.Conforms, len(rd.ResultSet()), rp.Conforms, len(rp.ResultSet())), base)
		}
		key := ""
		if located > 0 && unlocated > 0 {
			key = fmt.Sprint(i)
		}
		ctx.Eval(key)
		ctx.Count("files_per_document:"+fmt.Sprint(1+len(sm.Files)), 1)
		if i < 3 {
			ctx.Sample(map[string]any{"nodes": len(g.Nodes), "additional_files": sm.Files, "recorded": sm.Loc, "property_level_only": sm.PropOnly})
		}
	})
	ctx.FinishShard()
}
