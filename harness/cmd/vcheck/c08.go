package main

import (
	"bytes"
	"fmt"
	"github.com/aml-org/amf-custom-validator/pkg/config"
	"net"
	"os"
	"os/exec"
	"path/filepath"
	"sort"
	"strings"

	"verif/lib"

	"github.com/aml-org/amf-custom-validator/pkg/events"
	"github.com/open-policy-agent/opa/ast"
	"github.com/open-policy-agent/opa/types"
)

func init() { checks["C08"] = c08 }

type c08Builtin struct {
	name string
	call string // type-correct call expression (function style)
	rel  string // relation style statement, if the built-in has one
}

var c08Named = []c08Builtin{
	{"http.send", `http.send({"method": "get", "url": "http://127.0.0.1:9/x", "raise_error": false})`, ""},
	{"net.lookup_ip_addr", `net.lookup_ip_addr("localhost")`, ""},
	{"opa.runtime", `opa.runtime()`, ""},
	{"rego.parse_module", `rego.parse_module("x.rego", "package x")`, ""},
	{"walk", "", `walk(input, [walk_path, walk_value])`},
}

// syntaxes: how the call is written inside a rule body. $C is the call expression.
var c08Syntaxes = []struct{ name, code string }{
	{"statement", "$C"},
	{"assign", "unsafe_r := $C"},
	{"unify", "unsafe_r = $C"},
	{"array-comprehension", "unsafe_xs := [y | y := $C]"},
	{"set-comprehension", "unsafe_xs := {y | y = $C}"},
	{"object-comprehension", "unsafe_xs := {\"k\": y | y := $C}"},
	{"argument-of-call", "unsafe_n := count([$C])"},
	{"negated", "not $C == 17"},
	{"with-legacy-identifier-in", "in = 5\nunsafe_r := $C"},
	{"with-legacy-identifier-every", "every = 5\nunsafe_r := $C"},
	// other features of the policy language next to the call: each works alone
	{"next-to-print-call", "print(\"probe\")\nunsafe_r := $C"},
	{"next-to-trace-call", "trace(\"probe\")\nunsafe_r := $C"},
	{"under-with-modifier", "unsafe_r := $C with input as {}"},
	{"after-some-declaration", "some unsafe_i\nunsafe_r := [$C][unsafe_i]"},
	// the other spelling of a dotted reference: a["b"](...) names the same built-in as a.b(...)
	{c08BracketForm, "unsafe_r := $C"},
}

const c08BracketForm = "bracket-form-of-the-reference"

// c08Bracketed re-spells the dotted name at the head of a call: http.send(x) -> http["send"](x).
func c08Bracketed(call string) string {
	par := strings.Index(call, "(")
	dot := strings.Index(call, ".")
	if par < 0 || dot < 0 || dot > par {
		return call
	}
	return call[:dot] + "[\"" + call[dot+1:par] + "\"]" + call[par:]
}

// positions: where the code is embedded in the profile language. $CODE is the (multi-line) rule body fragment.
func c08Position(pos, code string, helperBody string) string {
	ind := func(s string, n int) string {
		pad := strings.Repeat(" ", n)
		return pad + strings.ReplaceAll(s, "\n", "\n"+pad)
	}
	head := "#%Validation Profile 1.0\nprofile: c08\nprefixes:\n  ex: http://ex.org/\n"
	full := code + "\n$result = true"
	v := func(body string) string {
		return head + "violation:\n  - v\nvalidations:\n  v:\n    targetClass: ex.T\n    message: m\n" + body
	}
	switch pos {
	case "validation-rego":
		return v("    rego: |\n" + ind(full, 6) + "\n")
	case "validation-regoModule":
		return v("    regoModule: |\n" + ind(full, 6) + "\n")
	case "code-message-form":
		return v("    rego:\n      message: custom\n      code: |\n" + ind(full, 8) + "\n")
	case "constraint-rego":
		return v("    propertyConstraints:\n      ex.a:\n        rego: |\n" + ind(full, 10) + "\n")
	case "inside-nested":
		return v("    propertyConstraints:\n      ex.a:\n        nested:\n          rego: |\n" + ind(full, 12) + "\n")
	case "inside-atLeast":
		return v("    propertyConstraints:\n      ex.a:\n        atLeast:\n          count: 1\n          validation:\n            rego: |\n" + ind(full, 14) + "\n")
	case "under-not":
		return v("    not:\n      rego: |\n" + ind(full, 8) + "\n")
	case "under-and":
		return v("    and:\n      - propertyConstraints:\n          ex.a:\n            minCount: 1\n      - rego: |\n" + ind(full, 10) + "\n")
	case "under-or":
		return v("    or:\n      - rego: |\n" + ind(full, 10) + "\n      - propertyConstraints:\n          ex.a:\n            minCount: 1\n")
	case "under-if":
		return v("    if:\n      rego: |\n" + ind(full, 8) + "\n    then:\n      propertyConstraints:\n        ex.a:\n          minCount: 1\n")
	case "under-then":
		return v("    if:\n      propertyConstraints:\n        ex.a:\n          minCount: 1\n    then:\n      rego: |\n" + ind(full, 8) + "\n")
	case "under-else":
		return v("    if:\n      propertyConstraints:\n        ex.a:\n          minCount: 1\n    then:\n      propertyConstraints:\n        ex.b:\n          minCount: 1\n    else:\n      rego: |\n" + ind(full, 8) + "\n")
	case "rego_extensions-rule":
		return head + "rego_extensions: |\n  unsafe_extension_rule = true {\n" + ind(code, 4) + "\n  }\nviolation:\n  - v\nvalidations:\n  v:\n    targetClass: ex.T\n    message: m\n    propertyConstraints:\n      ex.a:\n        minCount: 1\n"
	case "rego_extensions-helper-function":
		return head + "rego_extensions: |\n  unsafe_helper(x) = true {\n" + ind(code, 4) + "\n  }\nviolation:\n  - v\nvalidations:\n  v:\n    targetClass: ex.T\n    message: m\n    rego: |\n      $result = unsafe_helper(1)\n"
	case "warning-level-second-validation":
		return head + "violation:\n  - ok\nwarning:\n  - v\nvalidations:\n  ok:\n    targetClass: ex.T\n    propertyConstraints:\n      ex.a:\n        minCount: 1\n  v:\n    targetClass: ex.T\n    message: m\n    rego: |\n" + ind(full, 6) + "\n"
	}
	panic("position " + pos)
}

var c08Positions = []string{"validation-rego", "validation-regoModule", "code-message-form", "constraint-rego", "inside-nested", "inside-atLeast", "under-not", "under-and", "under-or", "under-if", "under-then", "under-else", "rego_extensions-rule", "rego_extensions-helper-function", "warning-level-second-validation"}

// synth builds a value of the given OPA type, favouring strings / objects that would reach the network if the
// built-in were able to.
func synth(t types.Type, depth int) string {
	switch tt := t.(type) {
	case types.String:
		return `"verif-probe.invalid"`
	case types.Number:
		return "1"
	case types.Boolean:
		return "true"
	case types.Null:
		return "null"
	case *types.Array:
		if depth > 2 {
			return "[]"
		}
		var parts []string
		for i := 0; i < tt.Len(); i++ {
			parts = append(parts, synth(tt.Select(i), depth+1))
		}
		if tt.Dynamic() != nil && len(parts) == 0 {
			parts = append(parts, synth(tt.Dynamic(), depth+1))
		}
		return "[" + strings.Join(parts, ", ") + "]"
	case *types.Set:
		if depth > 2 {
			return "set()"
		}
		_ = tt
		return `{"verif-probe.invalid"}`
	case *types.Object:
		return `{"method": "get", "url": "http://verif-probe.invalid:9/x", "host": "verif-probe.invalid", "name": "verif-probe.invalid", "raise_error": false}`
	case types.Any:
		if len(tt) > 0 {
			return synth(tt[0], depth+1)
		}
		return `"verif-probe.invalid"`
	case *types.Function:
		return `"verif-probe.invalid"`
	}
	return `"verif-probe.invalid"`
}

func networkSyscalls(log string) []string {
	var hits []string
	for _, l := range strings.Split(log, "\n") {
		if (strings.Contains(l, "socket(AF_INET") || strings.Contains(l, "socket(AF_INET6")) ||
			(strings.Contains(l, "connect(") && (strings.Contains(l, "AF_INET") || strings.Contains(l, "AF_INET6"))) ||
			((strings.Contains(l, "sendto(") || strings.Contains(l, "sendmsg(")) && (strings.Contains(l, "AF_INET"))) {
			hits = append(hits, strings.TrimSpace(l))
		}
	}
	return hits
}

// C08: no profile gets a policy accepted that calls a network / host / compiler re-entry built-in; nothing is evaluated.
func c08(tier string) {
	if len(os.Args) > 3 && os.Args[3] == "dns-probe" {
		_, _ = net.LookupHost("verif-positive-control.invalid")
		return
	}
	ctx := lib.NewCtx("C08", tier)
	ctx.Level = "fault_enumeration"
	ctx.Rule = "(i) by name, complete matrix: 5 built-ins x 15 embedding positions (validation rego / regoModule / code+message form / constraint-level / inside nested / inside atLeast / under not, and, or, if, then, else / rego_extensions rule / helper function in rego_extensions called from an innocuous rego / second validation on another level) x 15 call syntaxes (statement, :=, =, array/set/object comprehension, argument of another call, negated, next to identifiers named like future keywords, next to print / trace calls, under a `with` modifier, after a `some` declaration, the bracket form a[\"b\"](...) of the dotted reference) x debug flag {false,true}: CompileProfile, Validate and ValidateWithConfiguration (three report configurations) must fail and no evaluation event (OpaValidationStart or later) may be seen; every (position, syntax) cell is first shown to compile with a harmless call; " +
		"(ii) by behaviour: every built-in registered in the linked OPA (ast.Builtins) gets a type-correct call synthesised from its declaration; each profile that compiles is compiled+evaluated in a child process under strace -f -e trace=socket,connect,sendto,sendmsg and must issue no AF_INET/AF_INET6 system call (controls: a profile without Rego shows none, a resolver call shows some); " +
		"non-trivial & distinct = matrix cell / built-in actually judged"
	ctx.Assumptions = []string{"host inspection and compiler re-entry are not visible as system calls: opa.runtime, rego.parse_module and walk are decided by name only", "strace must work in the sandbox (checked by the positive control, otherwise part (ii) is inconclusive)"}
	if !ctx.IsShard() {
		ctx.RunShards()
		ctx.Extra["exhaustive"] = true
		if ctx.Counter("strace_positive_control_ok") == 0 || ctx.Counter("strace_negative_control_ok") == 0 {
			ctx.Inconclusive("strace controls did not behave (part ii not decided)")
		}
		if ctx.Counter("cells_judged") == 0 {
			ctx.Inconclusive("no matrix cell judged")
		}
		ctx.MinDistinct = 300
		ctx.Finish()
	}
	data := c04Good
	harmless := `count([1])`
	// ---- part (i)
	type cell struct{ pos, syn string }
	var cells []cell
	for _, p := range c08Positions {
		for _, s := range c08Syntaxes {
			cells = append(cells, cell{p, s.name})
		}
	}
	synCode := map[string]string{}
	for _, s := range c08Syntaxes {
		synCode[s.name] = s.code
	}
	// harmless profiles whose own helper is NAMED like a denied built-in (inside that package the name is the helper):
	// whatever the tool makes of them, the profiles compiled afterwards in the same process are judged as before
	shadowHead := "profile: shadow\nprefixes:\n  ex: http://ex.org/\n"
	shadowTail := "violation:\n  - v\nvalidations:\n  v:\n    targetClass: ex.T\n    message: m\n    rego: |\n      $result = (count([1]) == 1)\n"
	shadows := []string{
		shadowHead + "rego_extensions: |\n  walk(x) = y {\n    y := x\n  }\n" + shadowTail,
		shadowHead + "rego_extensions: |\n  http.send(req) = resp {\n    resp := {\"status_code\": 200}\n  }\n" + shadowTail,
		shadowHead + "rego_extensions: |\n  net.lookup_ip_addr(name) = addrs {\n    addrs := [name]\n  }\n" + shadowTail,
		shadowHead + "rego_extensions: |\n  opa.runtime() = rt {\n    rt := {}\n  }\n" + shadowTail,
		shadowHead + "rego_extensions: |\n  rego.parse_module(a, b) = m {\n    m := {\"a\": a, \"b\": b}\n  }\n" + shadowTail,
		shadowHead + "rego_extensions: |\n  http = {\"send\": 1}\n  walk = 5\n" + shadowTail,
	}
	ctx.ForEach(len(cells), func(i int) {
		c := cells[i]
		if i%5 == 0 {
			sp := shadows[(i/5)%len(shadows)]
			if sc := lib.Compile(sp, nil); !sc.Failed() {
				ctx.Count("profiles_with_a_helper_named_like_a_denied_builtin_accepted", 1)
				_ = lib.ValidateCompiled(sc.Q, data)
			} else {
				ctx.Count("profiles_with_a_helper_named_like_a_denied_builtin_rejected", 1)
			}
		}
		legacy := strings.HasPrefix(c.syn, "with-legacy-identifier")
		harmless := harmless
		if c.syn == c08BracketForm {
			harmless = c08Bracketed(`strings.reverse("ab")`)
		}
		control := c08Position(c.pos, strings.ReplaceAll(synCode[c.syn], "$C", harmless), "")
		if cc := lib.Compile(control, nil); cc.Failed() {
			if !legacy {
				ctx.Count("cells_whose_harmless_control_does_not_compile(not judged)", 1)
				ctx.Mark("unjudged_cells", c.pos+"/"+c.syn+": "+clip(cc.ErrString(), 120))
				return
			}
		} else if legacy {
			ctx.Count("legacy_identifier_controls_that_compile", 1)
		}
		for _, b := range c08Named {
			call := b.call
			code := ""
			if call == "" { // relation built-in (walk): only the statement-like syntaxes apply
				switch c.syn {
				case "next-to-print-call", "next-to-trace-call":
					code = strings.ReplaceAll(synCode[c.syn], "unsafe_r := $C", b.rel)
				case "statement", "with-legacy-identifier-in", "with-legacy-identifier-every":
					code = strings.ReplaceAll(synCode[c.syn], "unsafe_r := $C", b.rel)
					code = strings.ReplaceAll(code, "$C", b.rel)
				case "array-comprehension":
					code = "unsafe_xs := [walk_value | " + b.rel + "]"
				case "set-comprehension":
					code = "unsafe_xs := {walk_path | " + b.rel + "}"
				case "negated":
					code = "not " + b.rel
				default:
					continue
				}
			} else {
				if c.syn == c08BracketForm {
					call = c08Bracketed(call)
				}
				code = strings.ReplaceAll(synCode[c.syn], "$C", call)
			}
			ptext := c08Position(c.pos, code, "")
			for _, dbg := range []bool{false, true} {
				key := fmt.Sprintf("%s/%s/%s/debug=%v", b.name, c.pos, c.syn, dbg)
				ctx.Eval(key)
				ctx.Count("cells_judged", 1)
				base := map[string]any{"profile": ptext, "data": data, "builtin": b.name, "position": c.pos, "syntax": c.syn, "debug": dbg}
				cp := lib.CompileDebug(ptext, dbg, nil)
				if !cp.Failed() {
					ctx.Violation("unsafe-builtin-accepted", fmt.Sprintf("CompileProfile(debug=%v) accepted a profile calling %s (%s, %s)", dbg, b.name, c.pos, c.syn), base)
				}
				ch := make(chan events.Event, 64)
				o := lib.ValidateDebug(ptext, data, dbg, &ch)
				var evs []events.Event
			drain:
				for {
					select {
					case e, ok := <-ch:
						if !ok {
							break drain
						}
						evs = append(evs, e)
					default:
						break drain
					}
				}
				if !o.Failed() {
					ctx.Violation("unsafe-builtin-evaluated", fmt.Sprintf("Validate(debug=%v) returned a report for a profile calling %s (%s, %s)", dbg, b.name, c.pos, c.syn), base)
				}
				for _, e := range evs {
					if e.EventType == events.OpaValidationStart || e.EventType == events.OpaValidationDone || e.EventType == events.BuildReportStart {
						ctx.Violation("evaluation-started", fmt.Sprintf("profile calling %s (%s, %s): pipeline went on to %s", b.name, c.pos, c.syn, eventName(e.EventType)), base)
						break
					}
				}
				// the other validating entry point, under report configurations that differ from the default one
				if !dbg {
					for ci, rc := range []config.ReportConfiguration{
						{IncludeReportCreationTime: false, ReportSchemaIri: "file:///dialects/validation-report.yaml", LexicalSchemaIri: "file:///dialects/lexical.yaml"},
						{IncludeReportCreationTime: true, ReportSchemaIri: "", LexicalSchemaIri: ""},
						{},
					} {
						if oc := lib.ValidateCfg(ptext, data, nil, lib.Epoch2000, rc); !oc.Failed() {
							base["report_configuration"] = ci
							ctx.Violation("unsafe-builtin-evaluated", fmt.Sprintf("ValidateWithConfiguration(configuration %d) returned a report for a profile calling %s (%s, %s)", ci, b.name, c.pos, c.syn), base)
						}
						ctx.Count("cells_judged_under_other_report_configurations", 1)
					}
				}
			}
		}
		if i%40 == 0 {
			ctx.Sample(map[string]any{"position": c.pos, "syntax": c.syn, "profile": clip(c08Position(c.pos, strings.ReplaceAll(synCode[c.syn], "$C", c08Named[0].call), ""), 500)})
		}
	})
	// ---- part (ii)
	self := os.Getenv("VERIF_SELF")
	tmp := lib.TempDir("c08")
	defer os.RemoveAll(tmp)
	straceRun := func(tag string, args ...string) (string, error) {
		logf := filepath.Join(tmp, tag+".strace")
		all := append([]string{"-f", "-e", "trace=socket,connect,sendto,sendmsg", "-o", logf}, args...)
		cmd := exec.Command("strace", all...)
		var buf bytes.Buffer
		cmd.Stdout, cmd.Stderr = &buf, &buf
		err := cmd.Run()
		b, _ := os.ReadFile(logf)
		return string(b), err
	}
	if ctx.First() && self != "" {
		pf, df := filepath.Join(tmp, "ctl.yaml"), filepath.Join(tmp, "ctl.jsonld")
		_ = os.WriteFile(pf, []byte(c17GoodProfile), 0o644)
		_ = os.WriteFile(df, []byte(data), 0o644)
		if log, err := straceRun("neg", self, "child", "report", pf, df); err == nil && len(networkSyscalls(log)) == 0 {
			ctx.Count("strace_negative_control_ok", 1)
		} else {
			ctx.Count("strace_negative_control_failed", 1)
		}
		if log, _ := straceRun("pos", self, "C08", "quick", "dns-probe"); len(networkSyscalls(log)) > 0 {
			ctx.Count("strace_positive_control_ok", 1)
		}
	}
	var builtins []*ast.Builtin
	for _, b := range ast.Builtins {
		builtins = append(builtins, b)
	}
	sort.Slice(builtins, func(i, j int) bool { return builtins[i].Name < builtins[j].Name })
	interesting := func(name string) bool {
		for _, k := range []string{"http", "net", "opa", "rego", "io", "aws", "graphql", "dns", "lookup", "send", "fetch", "url", "socket", "tls", "x509", "uuid", "time", "rand", "trace", "print"} {
			if strings.Contains(name, k) {
				return true
			}
		}
		return false
	}
	ctx.ForEach(len(builtins), func(i int) {
		b := builtins[i]
		if b.Relation || b.Infix != "" || b.Decl == nil {
			ctx.Count("builtins_skipped(infix-or-relation)", 1)
			return
		}
		if ctx.Quick() && !interesting(b.Name) && i%6 != int(ctx.Seed)%6 {
			ctx.Count("builtins_not_sampled_in_quick_tier", 1)
			return
		}
		var args []string
		for _, a := range b.Decl.FuncArgs().Args {
			args = append(args, synth(a, 0))
		}
		call := fmt.Sprintf("%s(%s)", b.Name, strings.Join(args, ", "))
		code := "behaviour_probe := " + call
		if b.Decl.Result() == nil {
			code = call
		}
		ptext := c08Position("validation-rego", code, "")
		cp := lib.Compile(ptext, nil)
		ctx.Eval("builtin/" + b.Name)
		if cp.Failed() {
			ctx.Count("builtins_rejected_at_compile_time", 1)
			ctx.Mark("rejected_builtins", b.Name)
			return
		}
		if self == "" {
			return
		}
		pf, df := filepath.Join(tmp, fmt.Sprintf("b%d.yaml", i)), filepath.Join(tmp, "b.jsonld")
		_ = os.WriteFile(pf, []byte(ptext), 0o644)
		_ = os.WriteFile(df, []byte(data), 0o644)
		log, _ := straceRun(fmt.Sprintf("b%d", i), self, "child", "report", pf, df)
		ctx.Count("builtins_evaluated_under_strace", 1)
		if hits := networkSyscalls(log); len(hits) > 0 {
			ctx.Violation("network-syscall", fmt.Sprintf("a profile calling %s compiles and its evaluation issues network system calls: %s", b.Name, clip(strings.Join(hits, " ; "), 300)),
				map[string]any{"profile": ptext, "data": data, "builtin": b.Name, "syscalls": hits})
		}
	})
	ctx.FinishShard()
}
