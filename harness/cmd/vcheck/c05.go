package main

import (
	"fmt"
	"math/rand"
	"os"
	"path/filepath"
	"strings"

	"verif/lib"
)

func init() { checks["C05"] = c05 }

func c05Graph(r *rand.Rand) *lib.Graph {
	g := lib.NewGraph()
	n := 3 + r.Intn(6)
	if r.Intn(4) == 0 {
		n = 1 + r.Intn(3) // small graphs: often a single tree that can be embedded into one root object
	}
	ids := make([]string, n)
	for i := range ids {
		ids[i] = fmt.Sprintf("%snode%d", lib.EX, i)
	}
	for i, id := range ids {
		types := []string{lib.EX + pick(r, "T", "T", "U", "data")}
		if r.Intn(4) == 0 {
			types = append(types, lib.EX+"Extra")
		}
		nd := g.AddNode(id, types...)
		if r.Intn(4) != 0 {
			nd.Add(lib.EX+"name", lib.StrV(pick(r, "alpha", "beta", "gamma delta", "x", "alpha", "beta", "conforms", "@id", "Violation", "null", "true", "0", "", ids[r.Intn(len(ids))])))
		}
		if r.Intn(2) == 0 {
			nd.Add(lib.EX+"num", lib.IntV(int64(r.Intn(12))))
		}
		if r.Intn(3) == 0 {
			nd.Add(lib.EX+"flag", lib.BoolV(r.Intn(2) == 0))
		}
		if r.Intn(2) == 0 {
			tags := lib.Shuffled(r, []string{"get", "post", "put", "delete"})[:1+r.Intn(3)]
			for _, t := range tags {
				nd.Add(lib.EX+"tags", lib.StrV(t))
			}
		}
		if r.Intn(3) == 0 {
			// local names that are also names of AMF's built-in prefixes
			nd.Add(lib.EX+"meta", lib.StrV(pick(r, "m1", "m2")))
			if r.Intn(2) == 0 {
				nd.Add(lib.EX+"core", lib.IntV(int64(r.Intn(5))))
			}
		}
		if r.Intn(3) == 0 {
			nd.Add(lib.EX+"low", lib.IntV(int64(r.Intn(6))))
			nd.Add(lib.EX+"high", lib.IntV(int64(r.Intn(6))))
		}
		for _, p := range []string{"child", "link"} {
			k := r.Intn(3)
			seen := map[int]bool{}
			for j := 0; j < k; j++ {
				t := r.Intn(n)
				if !seen[t] && (p == "link" || t != i) {
					seen[t] = true
					nd.Add(lib.EX+p, lib.RefV(ids[t]))
				}
			}
		}
	}
	if r.Intn(3) == 0 {
		// two units whose fragment nodes are written alike ("#thing" under two different bases) and are different nodes
		same := pick(r, "alpha", "x", "zeta")
		for u := 1; u <= 2; u++ {
			unit := g.AddNode(fmt.Sprintf("%sunit%d", lib.EX, u), lib.EX+"U")
			th := g.AddNode(fmt.Sprintf("%sunit%d#thing", lib.EX, u), lib.EX+"T")
			th.Add(lib.EX+"name", lib.StrV(same))
			th.Add(lib.EX+"num", lib.IntV(7))
			unit.Add(lib.EX+"child", lib.RefV(th.ID))
			unit.Add(lib.EX+"name", lib.StrV("unit"))
		}
	}
	return g
}

func c05Profiles() []*lib.ProfileDoc {
	mk := func(name string, vals ...lib.Validation) *lib.ProfileDoc {
		p := &lib.ProfileDoc{Name: name, Prefixes: [][2]string{{"ex", lib.EX}}}
		for i, v := range vals {
			p.Validations = append(p.Validations, v)
			switch i % 3 {
			case 0:
				p.Violation = append(p.Violation, v.Name)
			case 1:
				p.Warning = append(p.Warning, v.Name)
			default:
				p.Info = append(p.Info, v.Name)
			}
		}
		return p
	}
	v := func(name, target, msg string, body lib.Expr) lib.Validation {
		return lib.Validation{Name: name, TargetClass: target, Message: msg, Body: body}
	}
	sc := lib.CScalar
	return []*lib.ProfileDoc{
		mk("scalars",
			v("name-required", "ex.T", "node {{ex.name}} num {{ ex.num }}", lib.PC1("ex.name", sc("minCount", lib.Int(1)), sc("pattern", lib.Str("^[a-z]+$")))),
			v("num-range", "ex.T", "num out of range {{ex.num}}", lib.PC1("ex.num", sc("minInclusive", lib.Int(2)), sc("maxExclusive", lib.Int(9)))),
			v("flag-type", "ex.U", "flag", lib.PC1("ex.flag", sc("datatype", lib.Str("xsd.boolean")))),
			v("name-length", "ex.U", "len {{ex.name}}", lib.PC1("ex.name", sc("minLength", lib.Int(2)), sc("maxLength", lib.Int(5)))),
		),
		mk("sets",
			v("tags-in", "ex.T", "tags {{ex.name}}", lib.PC1("ex.tags", lib.CList("in", "get", "post"))),
			v("tags-all", "ex.T", "tags all", lib.PC1("ex.tags", lib.CList("containsAll", "get", "post"))),
			v("tags-some", "ex.U", "tags some", lib.PC1("ex.tags", lib.CList("containsSome", "put", "delete"))),
			v("tags-count", "ex.T", "count", lib.PC1("ex.tags", sc("maxCount", lib.Int(2)), sc("minCount", lib.Int(1)))),
			v("types", "ex.T", "types", lib.PC1("@type", sc("maxCount", lib.Int(1)))),
		),
		mk("paths",
			v("child-names", "ex.T", "children of {{ex.name}}", lib.PC1("ex.child / ex.name", sc("minCount", lib.Int(1)))),
			v("parents", "ex.U", "parents", lib.PC1("ex.child^", sc("minCount", lib.Int(1)))),
			v("alt", "ex.T", "alt", lib.PC1("ex.child | ex.link", sc("maxCount", lib.Int(2)))),
			v("inverse-seq", "ex.T", "inv", lib.PC1("ex.link^ / ex.child", lib.CNested(lib.PC1("ex.name", sc("minCount", lib.Int(1)))))),
			v("grand", "ex.T", "grand", lib.PC1("(ex.child | ex.link) / ex.child^", sc("exactCount", lib.Int(1)))),
		),
		mk("quantified",
			v("nested-children", "ex.T", "nested {{ex.name}}", lib.PC1("ex.child", lib.CNested(lib.PC1("ex.num", sc("minCount", lib.Int(1)))))),
			v("atleast", "ex.T", "atleast", lib.PC1("ex.link", lib.CAtLeast(1, lib.PC1("ex.flag", sc("minCount", lib.Int(1)))))),
			v("atmost", "ex.U", "atmost", lib.PC1("ex.child | ex.link", lib.CAtMost(1, lib.PC1("ex.name", sc("pattern", lib.Str("a")))))),
			v("nested-inverse", "ex.U", "nested inverse", lib.PC1("ex.child^", lib.CNested(lib.PC1("ex.child", lib.CNested(lib.PC1("ex.name", sc("minCount", lib.Int(1)))))))),
		),
		mk("names-and-sets",
			v("meta-required", "ex.T", "meta {{ex.meta}}", lib.PC1("ex.meta", sc("minCount", lib.Int(1)))),
			v("core-range", "ex.data", "core", lib.PC1("ex.core", sc("maxInclusive", lib.Int(2)), sc("minCount", lib.Int(1)))),
			v("data-children", "ex.data", "data children", lib.PC1("ex.child / ex.meta | ex.link / ex.meta", lib.CList("in", "m1"))),
			v("unique-tags", "ex.T", "unique", lib.PC1("ex.child / ex.tags", sc("uniqueValues", lib.Bool(true)))),
			v("unique-names", "ex.U", "unique names", lib.PC1("ex.link / ex.name", sc("uniqueValues", lib.Bool(true)))),
		),
		mk("logic",
			v("either", "ex.T", "either", lib.OrE{Items: []lib.Expr{lib.PC1("ex.num", sc("minCount", lib.Int(1))), lib.PC1("ex.flag", sc("minCount", lib.Int(1)))}}),
			v("cond", "ex.T", "cond", lib.IfE{If: lib.PC1("ex.tags", sc("minCount", lib.Int(1))), Then: lib.PC1("ex.name", sc("minCount", lib.Int(1))), Else: lib.PC1("ex.child", sc("minCount", lib.Int(1)))}),
			v("negated", "ex.U", "negated", lib.NotE{Item: lib.AndE{Items: []lib.Expr{lib.PC1("ex.link", sc("minCount", lib.Int(1))), lib.PC1("ex.name", lib.CList("in", "alpha", "x"))}}}),
			v("compare", "ex.T", "compare {{ex.low}} {{ex.high}}", lib.PC1("ex.low", sc("lessThanProperty", lib.Str("ex.high")))),
			v("equal", "ex.U", "equal", lib.PC1("ex.low", sc("equalsToProperty", lib.Str("ex.high")))),
		),
	}
}

// C05: two documents denoting the same graph get the same conforms flag and the same result set.
func c05(tier string) {
	ctx := lib.NewCtx("C05", tier)
	ctx.Rule = "random graphs (3-8 nodes, literals of three kinds, multi-valued properties, references incl. cycles and shared children) rendered once canonically (flat, expanded IRIs, arrays, value objects) and in random variants composing: prefix / @vocab / term-definition compaction, context arrays, @base-relative ids, embedding to depth<=5 (a node embedded once and referenced elsewhere), a node object split in two objects with the same @id, edges written through @reverse on the object's side, the plain context-free flat shape AMF emits, @graph wrapper with/without context, node order, key order, single value vs array, order of the values of a property (never for properties printed by a message placeholder), @type string vs array, native literals vs value objects, repeated values, repeated node objects, whitespace; each variant is first verified by json-gold (run by the harness) to flatten to the same graph, then validated against 5 profiles (23 validations: all constraint families, inverse/alternative/sequence paths, nested/atLeast/atMost, logic, placeholders); " +
		"non-trivial & distinct = (graph, variant) whose report has at least one result"
	ctx.Assumptions = []string{"every node has an explicit IRI @id; value order is permuted only for properties no message placeholder prints; numbers are not re-spelled; no typed or language-tagged literals",
		"json-gold v0.4.0, run independently, decides that a variant denotes the same graph (variants failing that self-check are dropped and counted)"}
	nGraphs := ctx.N(400, 4000)
	nVar := ctx.N(8, 12)
	if !ctx.IsShard() {
		ctx.RunShards()
		ctx.MinDistinct = 100
		for _, t := range []string{"prefix-compaction", "@vocab", "term-definitions", "@base-relative-ids", "embedding", "@graph-wrapper", "node-order", "key-order", "single-value-not-array", "@type-as-string", "repeated-value", "repeated-node-object", "whitespace", "context-array", "native-literals", "@graph-single-object", "root-node-object", "split-node-object", "plain-flat-context-free", "value-order", "@reverse-property"} {
			if ctx.Counter("transformation:"+t) == 0 {
				ctx.Inconclusive("transformation never applied: " + t)
			}
		}
		ctx.Finish()
	}
	profs := c05Profiles()
	ptexts := make([]string, len(profs))
	compiled := make([]lib.Compiled, len(profs))
	for i, p := range profs {
		ptexts[i] = p.Text()
		compiled[i] = lib.Compile(ptexts[i], nil)
		if compiled[i].Failed() {
			ctx.Violation("call-failed", "profile "+p.Name+" does not compile: "+compiled[i].ErrString(), map[string]any{"profile": ptexts[i]})
			ctx.FinishShard()
		}
	}
	ctxDir := lib.TempDir("c05ctx")
	defer os.RemoveAll(ctxDir)
	ctxFile := filepath.Join(ctxDir, "context.jsonld")
	ctx.ForEach(nGraphs, func(i int) {
		r := lib.CaseRand(ctx.Seed, 5, i)
		g := c05Graph(r)
		if i%5 == 4 {
			g = g.WithoutNumbers() // every fifth graph holds texts, flags and links only
			ctx.Count("graphs_without_numeric_literals", 1)
		}
		canon := g.CanonicalJSONLD()
		canonFlat, err := lib.FlattenCanon(canon)
		if err != nil {
			ctx.Count("harness_selfcheck_failed", 1)
			return
		}
		type ref struct {
			conforms bool
			set      []string
		}
		refs := make([]*ref, len(profs))
		pis := r.Perm(len(profs))[:ctx.N(4, 6)]
		for _, pi := range pis {
			o := lib.ValidateCompiled(compiled[pi].Q, canon)
			rep, err := parseOK(o)
			if err != nil {
				ctx.Violation("call-failed", "canonical document: "+err.Error(), map[string]any{"profile": ptexts[pi], "data": canon})
				continue
			}
			refs[pi] = &ref{rep.Conforms, rep.ResultSet()}
		}
		for v := 0; v < nVar; v++ {
			text, applied := g.Variant(r)
			if v%8 == 5 {
				// the context lives in a file of its own, referenced (or imported) by the document
				mode := pick(r, "reference", "import")
				var ctxText string
				text, ctxText = g.ContextByReference(ctxFile, mode)
				_ = os.WriteFile(ctxFile, []byte(ctxText), 0o644)
				applied = []string{"context-in-a-file(" + mode + ")", "prefix-compaction", "@graph-wrapper"}
			}
			if v%8 == 3 {
				if t, ok := g.ScopedContexts(); ok {
					text, applied = t, []string{"one-context-per-unit(@base)", "embedding", "relative-fragment-ids"}
				}
			}
			if v%8 == 7 || v%8 == 1 && i%5 == 4 {
				// the normal form itself (what flattening + compaction with an empty context yields), with at most one perturbation
				if t, a, err := lib.NormalFormVariant(canon, r); err == nil {
					text, applied = t, a
				}
			}
			flat, err := lib.FlattenCanon(text)
			if err != nil || flat != canonFlat {
				ctx.Count("variants_dropped_by_harness_selfcheck", 1)
				continue
			}
			for _, a := range applied {
				ctx.Count("transformation:"+a, 1)
			}
			for _, pi := range pis {
				if refs[pi] == nil {
					continue
				}
				var o lib.Outcome
				if v%2 == 0 {
					o = lib.ValidateCompiled(compiled[pi].Q, text)
				} else {
					o = lib.Validate(ptexts[pi], text)
				}
				base := map[string]any{"profile": ptexts[pi], "data": text, "canonical_data": canon, "transformations": applied}
				key := ""
				rep, err := parseOK(o)
				if err != nil {
					ctx.Eval("")
					ctx.Violation("variant-failed", fmt.Sprintf("variant (%s) of a valid graph failed: %v", strings.Join(applied, ","), err), base)
					continue
				}
				set := rep.ResultSet()
				if len(set) > 0 {
					key = fmt.Sprintf("%d/%d/%d", i, v, pi)
				}
				ctx.Eval(key)
				if rep.Conforms != refs[pi].conforms || !lib.SetEq(set, refs[pi].set) {
					base["expected"] = readable(refs[pi].set)
					base["observed"] = readable(set)
					ctx.Violation("result-set-differs", fmt.Sprintf("profile %s: variant (%s) gives conforms=%v %d results, canonical form gives conforms=%v %d results; only in variant: %v; only in canonical: %v",
						profs[pi].Name, strings.Join(applied, ","), rep.Conforms, len(set), refs[pi].conforms, len(refs[pi].set), clipList(diff(set, refs[pi].set)), clipList(diff(refs[pi].set, set))), base)
				}
			}
			if i < 2 && v == 0 {
				ctx.Sample(map[string]any{"transformations": applied, "variant": clip(text, 700), "canonical": clip(canon, 400)})
			}
		}
	})
	os.RemoveAll(ctxDir)
	ctx.FinishShard()
}

func parseOK(o lib.Outcome) (*lib.Report, error) {
	if o.Failed() {
		return nil, fmt.Errorf("%s", o.ErrString())
	}
	return lib.ParseReport(o.Report)
}

func diff(a, b []string) []string {
	in := map[string]bool{}
	for _, x := range b {
		in[x] = true
	}
	var out []string
	for _, x := range a {
		if !in[x] {
			out = append(out, x)
		}
	}
	return readable(out)
}

func clipList(xs []string) []string {
	if len(xs) > 4 {
		return append(xs[:4], "…")
	}
	return xs
}
