package main

import (
	"fmt"
	"os"
	"time"

	"verif/lib"

	"github.com/aml-org/amf-custom-validator/pkg/config"
	"github.com/aml-org/amf-custom-validator/pkg/events"
	"github.com/aml-org/amf-custom-validator/pkg/milestones"
)

func init() { checks["C11"] = c11 }

// stage order of the pipeline, each stage as (Start, Done)
var c11Stages = []struct {
	name        string
	start, done events.EventType
	hook        string
	op          milestones.Operation // "" : the milestones package defines no Operation for this stage
}{
	{"ProfileParsing", events.ProfileParsingStart, events.ProfileParsingDone, "profile_parse", milestones.ProfileParsing},
	{"RegoGeneration", events.RegoGenerationStart, events.RegoGenerationDone, "rego_generate", milestones.RegoGeneration},
	{"RegoCompilation", events.RegoCompilationStart, events.RegoCompilationDone, "rego_compile", ""},
	{"InputDataParsing", events.InputDataParsingStart, events.InputDataParsingDone, "input_parse", milestones.InputDataParsing},
	{"InputDataNormalization", events.InputDataNormalizationStart, events.InputDataNormalizationDone, "normalize", milestones.InputDataNormalization},
	{"OpaValidation", events.OpaValidationStart, events.OpaValidationDone, "evaluate", milestones.OpaValidation},
	{"BuildReport", events.BuildReportStart, events.BuildReportDone, "build_report", milestones.BuildReport},
}

func eventName(t events.EventType) string {
	for _, s := range c11Stages {
		if s.start == t {
			return s.name + "Start"
		}
		if s.done == t {
			return s.name + "Done"
		}
	}
	return fmt.Sprintf("Event(%d)", int(t))
}

func word(from, to int) []events.EventType {
	var w []events.EventType
	for i := from; i <= to; i++ {
		w = append(w, c11Stages[i].start, c11Stages[i].done)
	}
	return w
}

func names(ev []events.Event) []string {
	out := make([]string, len(ev))
	for i, e := range ev {
		out[i] = eventName(e.EventType)
	}
	return out
}

func isPrefix(ev []events.Event, w []events.EventType) bool {
	if len(ev) > len(w) {
		return false
	}
	for i, e := range ev {
		if e.EventType != w[i] {
			return false
		}
	}
	return true
}

// chanProbe: a channel handed to the library, with either a buffer large enough for every event or a consumer goroutine.
type chanProbe struct {
	ch       chan events.Event
	buffered bool
	got      []events.Event
	done     chan struct{}
	sawClose bool
}

// c11SharedVar is the ONE channel variable whose address is handed to the library in every cell: callers keep
// their channel in a struct field or a loop-external variable and store a fresh channel in it for every call.
var c11SharedVar chan events.Event

func newProbe(buffered bool) *chanProbe { return newProbeKind(buffered, false) }

// newProbeKind: slow = the consumer of the unbuffered channel pauses 70 ms after the 2nd, 5th, 8th ... event it
// receives (an injected delay on the receiving side; the verdict is not a matter of time: every event must still arrive)
func newProbeKind(buffered, slow bool) *chanProbe {
	p := &chanProbe{buffered: buffered}
	if buffered {
		p.ch = make(chan events.Event, 64)
	} else {
		p.ch = make(chan events.Event)
		p.done = make(chan struct{})
		ch := p.ch
		go func() {
			n := 0
			for e := range ch {
				p.got = append(p.got, e)
				n++
				if slow && n%3 == 2 {
					time.Sleep(70 * time.Millisecond)
				}
			}
			p.sawClose = true
			close(p.done)
		}()
	}
	c11SharedVar = p.ch
	return p
}

// settle is called after the library call returned (or its panic was recovered). It reports whether the library
// had closed the channel, deterministically: a second close panics iff the channel was already closed.
func (p *chanProbe) settle() (closedByLibrary bool) {
	if p.buffered {
		for {
			select {
			case e, ok := <-p.ch:
				if !ok {
					return true
				}
				p.got = append(p.got, e)
				continue
			default:
			}
			break
		}
	}
	func() {
		defer func() {
			if r := recover(); r != nil {
				closedByLibrary = true
			}
		}()
		close(p.ch) // panics with "close of closed channel" iff the library closed it
	}()
	if !p.buffered {
		<-p.done // the channel is closed now (by the library or by the line above): the consumer terminates
	}
	return
}

// peekOpen drains what is buffered without closing anything; returns false if the channel is closed (buffered probes only).
func (p *chanProbe) peekOpen() bool {
	for {
		select {
		case e, ok := <-p.ch:
			if !ok {
				return false
			}
			p.got = append(p.got, e)
		default:
			return true
		}
	}
}

type c11Scenario struct {
	name    string
	profile string
	data    string
	fault   string // hook fault "stage:kind" or ""
	failAt  int    // stage index where the pipeline is expected to fail (-1: success)
}

// c11Clock: scenarios in which the caller-supplied ValidationConfiguration of the two ...WithConfiguration entry points fails ("panics") or is missing ("nil")
var c11Clock = map[string]string{"caller-clock-panics": "panics", "caller-configuration-nil": "nil"}

// panickingClock: a caller-supplied configuration whose callback fails.
type panickingClock struct{}

func (panickingClock) ReportCreationTime() time.Time { panic("the caller's clock failed") }

const c11GoodData = `[{"@id":"http://ex.org/n","@type":["http://ex.org/T"],"http://ex.org/c":[{"@id":"http://ex.org/m"}]},{"@id":"http://ex.org/m","@type":["http://ex.org/T"],"http://ex.org/a":[{"@value":"v"}]}]`

const c11KeysProfile = "profile: x\nprefixes: {ex: \"http://ex.org/\"}\nviolation: [v]\nvalidations:\n  v:\n    targetClass: ex.T\n    rego: |\n      tags = object.get($node, \"http://ex.org/tag\", [])\n      by_lower = {lower(t): t | t = tags[_]}\n      $result = (count(by_lower) > 5)\n"

func c11Scenarios() []c11Scenario {
	good := c17GoodProfile
	sc := []c11Scenario{
		{"success", good, c11GoodData, "", -1},
		{"success-empty-object", good, "{}", "", -1},
		{"success-empty-array", good, "[]", "", -1},
		{"success-empty-graph", good, `{"@graph":[]}`, "", -1},
		{"success-conforming", good, c04Good, "", -1},
		{"success-source-maps", c14Profile().Text(), lib.SourceMapDoc(), "", -1},
		{"profile-yaml-error", "a: [", c11GoodData, "", 0},
		{"profile-empty", "", c11GoodData, "", 0},
		{"profile-no-validations", "profile: x\n", c11GoodData, "", 0},
		{"profile-no-targetclass", "profile: x\nviolation: [v]\nvalidations:\n  v:\n    propertyConstraints: {}\n", c11GoodData, "", 0},
		{"profile-unknown-prefix", "profile: x\nviolation: [v]\nvalidations:\n  v:\n    targetClass: nope.T\n    propertyConstraints:\n      nope.a:\n        minCount: 1\n", c11GoodData, "", 1},
		{"profile-bad-path", "profile: x\nprefixes: {ex: \"http://ex.org/\"}\nviolation: [v]\nvalidations:\n  v:\n    targetClass: ex.T\n    propertyConstraints:\n      \"ex.a / / ex.b\":\n        minCount: 1\n", c11GoodData, "", 0},
		{"rego-syntax-error", "profile: x\nprefixes: {ex: \"http://ex.org/\"}\nviolation: [v]\nvalidations:\n  v:\n    targetClass: ex.T\n    rego: \"$result = ((\"\n", c11GoodData, "", 2},
		{"rego-unsafe-builtin", "profile: x\nprefixes: {ex: \"http://ex.org/\"}\nviolation: [v]\nvalidations:\n  v:\n    targetClass: ex.T\n    rego: |\n      r = http.send({\"method\": \"get\", \"url\": \"http://localhost:1/\"})\n      $result = (r.status_code == 200)\n", c11GoodData, "", 2},
		{"data-truncated", good, `{"@graph":[`, "", 3},
		{"data-empty", good, "", "", 3},
		{"data-not-json", good, "openapi: 3.0.0", "", 3},
		{"data-jsonld-rejected", good, `{"@context": 5}`, "", 4},
		{"data-jsonld-bad-id", good, `[{"@id": 5, "@type": "http://ex.org/T"}]`, "", 4},
		{"evaluation-conflict", "profile: x\nprefixes: {ex: \"http://ex.org/\"}\nrego_extensions: |\n  conflicting(x) = 1 { true }\n  conflicting(x) = 2 { true }\nviolation: [v]\nvalidations:\n  v:\n    targetClass: ex.T\n    rego: \"$result = (conflicting(1) == 1)\"\n", c11GoodData, "", 5},
		// an evaluation error that depends on the data: object keys of a comprehension collide for one document only
		{"evaluation-key-collision", c11KeysProfile, `[{"@id":"http://ex.org/n","@type":["http://ex.org/T"],"http://ex.org/tag":[{"@value":"Alpha"},{"@value":"alpha"}]}]`, "", 5},
		// the caller's own callback fails / is missing: it is consulted while the report is built
		{"caller-clock-panics", good, c11GoodData, "", 6},
		{"caller-configuration-nil", good, c11GoodData, "", 6},
		{"success-embedded-rego", c11KeysProfile, `[{"@id":"http://ex.org/n","@type":["http://ex.org/T"],"http://ex.org/tag":[{"@value":"Alpha"},{"@value":"beta"}]}]`, "", -1},
	}
	for i, st := range c11Stages {
		for _, kind := range []string{"error", "panic"} {
			sc = append(sc, c11Scenario{fmt.Sprintf("hook-%s-%s", st.hook, kind), good, c11GoodData, st.hook + ":" + kind, i})
		}
	}
	return sc
}

// C11: events are a prefix of the stage order, the channel is closed exactly once when the validating call returns
// (a failed compilation closes it, a successful stand-alone compilation leaves it open), milestones are one per
// completed stage with non-negative duration.
func c11(tier string) {
	ctx := lib.NewCtx("C11", tier)
	ctx.Level = "fault_enumeration"
	ctx.Rule = "complete enumeration of (failure point x entry point x channel kind): 7 pipeline stages x {injected error, injected panic} through the verif hook + 15 input-driven failures (YAML, structure, unknown prefix, bad path, Rego syntax, unsafe built-in, truncated / empty / non-JSON data, JSON-LD rejections, evaluation conflicts: of a function, and of object keys for one document only; a caller-supplied clock that panics and a nil configuration) + 7 successes (incl. node-less documents, source maps, embedded Rego) x 6 entry-point shapes (Validate, ValidateWithConfiguration, CompileProfile alone, CompileProfile then ValidateCompiled on the same channel, ValidateCompiled, ValidateCompiledWithConfiguration) x {buffered channel, unbuffered channel with a prompt consumer, unbuffered channel with a consumer that pauses 70 ms every third event, nil}; an online checker accepts exactly the prefixes of the expected word; closedness is decided by a second close under recover; milestones are regenerated from the drained events; " +
		"non-trivial & distinct = cell of the matrix in which a channel was supplied"
	ctx.Assumptions = []string{"no milestone is demanded for RegoCompilation (the public Operation enumeration has no such member)", "hook faults fire right after the stage's Start event: the expected trace is exactly the word up to that Start"}
	scs := c11Scenarios()
	entries := []string{"Validate", "ValidateWithConfiguration", "CompileProfile", "CompileProfile+ValidateCompiled", "ValidateCompiled", "ValidateCompiledWithConfiguration"}
	chans := []string{"buffered", "unbuffered", "nil", "unbuffered-slow-consumer"}
	total := len(scs) * len(entries) * len(chans)
	extra := ctx.N(0, 20) // thorough: random profiles / data per success cell
	if !ctx.IsShard() {
		ctx.RunShards()
		ctx.Extra["exhaustive"] = true
		ctx.Extra["matrix_cells"] = total
		if ctx.Counter("hook_faults_fired") == 0 {
			ctx.Inconclusive("verif hook never fired")
		}
		if ctx.Evaluations < total {
			ctx.Inconclusive(fmt.Sprintf("only %d of %d matrix cells executed", ctx.Evaluations, total))
		}
		ctx.MinDistinct = 200
		ctx.Finish()
	}
	goodQ := lib.Compile(c17GoodProfile, nil)
	runCell := func(cell int, sc c11Scenario, entry, chanKind string) {
		var pr *chanProbe
		var chp *chan events.Event
		if chanKind != "nil" {
			pr = newProbeKind(chanKind == "buffered", chanKind == "unbuffered-slow-consumer")
			chp = &c11SharedVar
		}
		first, last := 0, 6
		switch entry {
		case "CompileProfile":
			last = 2
		case "ValidateCompiled", "ValidateCompiledWithConfiguration":
			first = 3
		}
		// what must happen
		failAt := sc.failAt
		if failAt >= 0 && (failAt < first || failAt > last) {
			failAt = -1 // the failing stage is not part of this entry point's pipeline
		}
		var vc config.ValidationConfiguration = lib.Epoch2000
		if ck := c11Clock[sc.name]; ck != "" {
			if entry != "ValidateWithConfiguration" && entry != "ValidateCompiledWithConfiguration" {
				failAt = -1 // the other entry points use the library's own clock
			} else if ck == "panics" {
				vc = panickingClock{}
			} else {
				vc = nil
			}
		}
		expectFail := failAt >= 0
		w := word(first, last)
		key := fmt.Sprintf("%s|%s|%s", sc.name, entry, chanKind)
		ctx.Begin(key, map[string]string{"profile": sc.profile, "data": sc.data, "fault": sc.fault})
		var o lib.Outcome
		compiledOpenOK := true
		pre := goodQ
		if first == 3 && sc.profile != c17GoodProfile {
			pre = lib.Compile(sc.profile, nil)
			if pre.Failed() {
				ctx.End()
				ctx.Count("cells_not_applicable(profile cannot be precompiled)", 1)
				if pr != nil {
					pr.settle()
				}
				ctx.Eval("")
				return
			}
		}
		if sc.fault != "" {
			os.Setenv("ACV_VERIF_FAULT", sc.fault)
		}
		switch entry {
		case "Validate":
			o = lib.ValidateDefault(sc.profile, sc.data, chp)
		case "ValidateWithConfiguration":
			o = lib.ValidateCfg(sc.profile, sc.data, chp, vc, config.DefaultReportConfiguration())
		case "CompileProfile":
			c := lib.Compile(sc.profile, chp)
			o = lib.Outcome{Err: c.Err, Panic: c.Panic, Stack: c.Stack}
			if c.Err == nil && c.Panic == nil && c.Q == nil {
				o.Err = fmt.Errorf("nil compiled profile")
			}
		case "CompileProfile+ValidateCompiled":
			c := lib.Compile(sc.profile, chp)
			o = lib.Outcome{Err: c.Err, Panic: c.Panic, Stack: c.Stack}
			if !c.Failed() {
				if pr != nil && pr.buffered {
					compiledOpenOK = pr.peekOpen()
				}
				o = lib.ValidateCompiledDefault(c.Q, sc.data, chp)
			}
		case "ValidateCompiled":
			o = lib.ValidateCompiledDefault(pre.Q, sc.data, chp)
		case "ValidateCompiledWithConfiguration":
			o = lib.ValidateCompiledCfg(pre.Q, sc.data, chp, vc, config.DefaultReportConfiguration())
		}
		if sc.fault != "" {
			os.Unsetenv("ACV_VERIF_FAULT")
			if failAt >= 0 {
				ctx.Count("hook_faults_fired", 1)
			}
		}
		ctx.End()
		nontrivial := ""
		if pr != nil {
			nontrivial = key
		}
		ctx.Eval(nontrivial)
		ctx.Count("entry:"+entry, 1)
		base := map[string]any{"profile": sc.profile, "data": sc.data, "scenario": sc.name, "entry": entry, "channel": chanKind, "fault": sc.fault}
		if o.Panic != nil {
			base["stack"] = o.Stack
			if pr != nil {
				pr.settle()
			}
			ctx.Violation("panic-escaped", fmt.Sprintf("%s: the call panicked: %v", key, o.Panic), base)
			return
		}
		if expectFail != o.Failed() {
			// error-ness is the business of other properties unless a hook fault was ignored; the trace and the
			// channel are still judged against what the call actually did
			if sc.fault != "" {
				if pr != nil {
					pr.settle()
				}
				ctx.Violation("fault-outcome", fmt.Sprintf("%s: expected failure=%v, got err=%v", key, expectFail, o.Err), base)
				return
			}
			ctx.Count("scenario_outcome_unexpected(observation)", 1)
		}
		if pr == nil {
			return
		}
		closed := pr.settle()
		ev := pr.got
		base["events"] = names(ev)
		ctx.Count("events_observed", len(ev))
		// 1. prefix of the expected word
		if !isPrefix(ev, w) {
			ctx.Violation("not-a-prefix", fmt.Sprintf("%s: events %v are not a prefix of the stage order of this entry point", key, names(ev)), base)
		} else if !o.Failed() && len(ev) != len(w) {
			ctx.Violation("incomplete-on-success", fmt.Sprintf("%s: the call succeeded but only %d of %d events were seen: %v", key, len(ev), len(w), names(ev)), base)
		} else if sc.fault != "" && failAt >= 0 {
			want := 2*(failAt-first) + 1
			if len(ev) != want {
				ctx.Violation("fault-trace", fmt.Sprintf("%s: fault injected right after %sStart, events seen: %v", key, c11Stages[failAt].name, names(ev)), base)
			}
		}
		// 2. closed exactly once when the validating call returns
		wantClosed := true
		if entry == "CompileProfile" && !o.Failed() {
			wantClosed = false
		}
		if closed != wantClosed {
			ctx.Violation("channel-state", fmt.Sprintf("%s: after the call returned (failed=%v) the channel was closed=%v, expected closed=%v", key, o.Failed(), closed, wantClosed), base)
		}
		if !compiledOpenOK {
			ctx.Violation("channel-state", fmt.Sprintf("%s: the successful stand-alone compilation closed the channel", key), base)
		}
		// 3. milestones regenerated from the drained events: as stamped by the library, and re-stamped by clocks that
		// tick coarsely (start and completion of a stage carry the same instant: a duration of zero is not negative)
		checkMilestones := func(ev []events.Event, clock string) {
			src := make(chan events.Event, len(ev)+1)
			for _, e := range ev {
				src <- e
			}
			close(src)
			ms := make(chan milestones.Milestone, 32)
			var mpanic any
			func() {
				defer func() { mpanic = recover() }()
				milestones.GenerateMilestonesFromEvents(&src, &ms)
			}()
			if mpanic != nil {
				ctx.Violation("milestones", fmt.Sprintf("%s (%s): milestone generation panicked: %v", key, clock, mpanic), base)
				return
			}
			var got []milestones.Milestone
			msClosed := false
		drain:
			for {
				select {
				case m, ok := <-ms:
					if !ok {
						msClosed = true
						break drain
					}
					got = append(got, m)
				default:
					break drain
				}
			}
			var wantOps []milestones.Operation
			startTime := map[milestones.Operation]events.Event{}
			for _, e := range ev {
				for _, st := range c11Stages {
					if st.op == "" {
						continue
					}
					if e.EventType == st.start {
						startTime[st.op] = e
					}
					if e.EventType == st.done {
						wantOps = append(wantOps, st.op)
					}
				}
			}
			ok := len(got) == len(wantOps) && msClosed
			for i := 0; ok && i < len(got); i++ {
				if got[i].Operation != wantOps[i] || got[i].Duration < 0 || !got[i].Start.Equal(startTime[wantOps[i]].Time) {
					ok = false
				}
			}
			ctx.Count("milestones_checked", len(got))
			if !ok {
				ctx.Violation("milestones", fmt.Sprintf("%s (%s): milestones %v (closed=%v) do not match the completed stages %v", key, clock, got, msClosed, wantOps), base)
			}
		}
		checkMilestones(ev, "library clock")
		if len(ev) > 0 {
			coarse := make([]events.Event, len(ev))
			frozen := make([]events.Event, len(ev))
			for k, e := range ev {
				coarse[k], frozen[k] = e, e
				coarse[k].Time = e.Time.Truncate(10 * time.Second).Round(0) // no monotonic reading, 10 s tick
				frozen[k].Time = ev[0].Time.Round(0)
			}
			checkMilestones(coarse, "clock with a 10 s tick")
			checkMilestones(frozen, "clock that stands still")
		}
		if cell%97 == 0 {
			ctx.Sample(map[string]any{"cell": key, "events": names(ev), "closed_by_library": closed})
		}
	}
	cell := 0
	for _, sc := range scs {
		for _, entry := range entries {
			for _, ck := range chans {
				if ctx.Mine(cell) {
					runCell(cell, sc, entry, ck)
				}
				cell++
			}
		}
	}
	// thorough: random profiles / documents through the success and data-failure cells
	for k := 0; k < extra*len(entries); k++ {
		if !ctx.Mine(cell + k) {
			continue
		}
		r := lib.CaseRand(ctx.Seed, 11, k)
		p, g := c06Profile(r, k)
		d := g.CanonicalJSONLD()
		failAt := -1
		if r.Intn(3) == 0 {
			d = d[:r.Intn(len(d))]
			if _, ok := lib.ReadableJSON(d); ok {
				continue
			}
			failAt = 3
		}
		runCell(cell+k, c11Scenario{fmt.Sprintf("random-%d", k), p.Text(), d, "", failAt}, entries[k%len(entries)], chans[r.Intn(2)])
	}
	ctx.FinishShard()
}
