package lib

import (
	"encoding/json"
	"fmt"
	"os"
	"path/filepath"
	"sort"
	"strconv"
	"strings"
	"sync"
	"time"
)

const VerifRoot = "/verif"

// KnownFinding is one entry of /verif/known_findings.json (read-only at run time).
type KnownFinding struct {
	Property string `json:"property"`
	Kind     string `json:"kind"` // "known" (suppresses, printed as KNOWN-FINDING) or "fixed" (suppresses nothing)
	Key      string `json:"key"`  // fingerprint computed by the check from the failing case
	What     string `json:"what"`
	Commit   string `json:"commit,omitempty"`
}

// Ctx collects what one check run observed and decides its exit status.
type Ctx struct {
	mu         sync.Mutex
	ID         string
	Tier       string
	Seed       int64
	Level      string
	start      time.Time
	known      []KnownFinding
	knownSeen  map[string]int
	violations int
	replayN    int
	inconcl    []string
	// coverage
	Evaluations int
	distinct    map[string]struct{}
	Rule        string
	Samples     []any
	Extra       map[string]any
	Assumptions []string
	counters    map[string]int
	MinDistinct int // a run that observed fewer distinct non-trivial cases is inconclusive
}

func NewCtx(id, tier string) *Ctx {
	seed := int64(1)
	if s := os.Getenv("VERIF_SEED"); s != "" {
		if v, err := strconv.ParseInt(s, 10, 64); err == nil {
			seed = v
		}
	}
	c := &Ctx{ID: id, Tier: tier, Seed: seed, Level: "exploration", start: time.Now(),
		knownSeen: map[string]int{}, distinct: map[string]struct{}{}, Extra: map[string]any{}, counters: map[string]int{}, MinDistinct: 2}
	b, err := os.ReadFile(filepath.Join(VerifRoot, "known_findings.json"))
	if err == nil {
		var all []KnownFinding
		if err := json.Unmarshal(b, &all); err != nil {
			fmt.Fprintf(os.Stderr, "known_findings.json unreadable: %v\n", err)
			os.Exit(2)
		}
		for _, k := range all {
			if k.Property == id && k.Kind == "known" {
				c.known = append(c.known, k)
			}
		}
	}
	return c
}

// Quick tells whether this is the quick tier.
func (c *Ctx) Quick() bool { return c.Tier != "thorough" }

// N picks the case count for the tier.
func (c *Ctx) N(quick, thorough int) int {
	if c.Quick() {
		return quick
	}
	return thorough
}

// Count bumps a named coverage counter (reported under coverage.counters).
func (c *Ctx) Count(name string, n int) {
	c.mu.Lock()
	c.counters[name] += n
	c.mu.Unlock()
}

func (c *Ctx) Counter(name string) int {
	c.mu.Lock()
	defer c.mu.Unlock()
	return c.counters[name]
}

// Eval records one executed case; key != "" marks it as a distinct non-trivial case.
func (c *Ctx) Eval(nontrivialKey string) {
	c.mu.Lock()
	c.Evaluations++
	if nontrivialKey != "" {
		c.distinct[nontrivialKey] = struct{}{}
	}
	c.mu.Unlock()
}

func (c *Ctx) Sample(s any) {
	c.mu.Lock()
	if len(c.Samples) < 6 {
		c.Samples = append(c.Samples, s)
	}
	c.mu.Unlock()
}

// Violation reports one refuting observation. key is the fingerprint matched against known findings;
// replay is written to /verif/replay/<id>/ and named on the VIOLATION line.
func (c *Ctx) Violation(key string, what string, replay map[string]any) {
	c.mu.Lock()
	defer c.mu.Unlock()
	for _, k := range c.known {
		if k.Key == key {
			if c.knownSeen[key] == 0 {
				fmt.Printf("KNOWN-FINDING: property=%s %s\n", c.ID, k.What)
			}
			c.knownSeen[key]++
			return
		}
	}
	c.violations++
	if c.violations > 25 { // enough witnesses; keep counting only
		return
	}
	c.replayN++
	dir := filepath.Join(VerifRoot, "replay", c.ID)
	_ = os.MkdirAll(dir, 0o755)
	path := filepath.Join(dir, fmt.Sprintf("%s-seed%d-%d.json", c.Tier, c.Seed, c.replayN))
	if replay == nil {
		replay = map[string]any{}
	}
	replay["property"] = c.ID
	replay["key"] = key
	replay["what"] = what
	replay["seed"] = c.Seed
	replay["tier"] = c.Tier
	b, _ := json.MarshalIndent(replay, "", " ")
	_ = os.WriteFile(path, b, 0o644)
	fmt.Printf("VIOLATION property=%s replay=%s\n", c.ID, path)
	fmt.Printf("  what: %s\n", firstLines(what, 12))
}

func firstLines(s string, n int) string {
	lines := strings.Split(s, "\n")
	if len(lines) > n {
		lines = append(lines[:n], "...")
	}
	return strings.Join(lines, "\n        ")
}

// Inconclusive records that part of the run could not be decided (never folded into held or violated).
func (c *Ctx) Inconclusive(why string) {
	c.mu.Lock()
	c.inconcl = append(c.inconcl, why)
	c.mu.Unlock()
	fmt.Printf("INCONCLUSIVE property=%s %s\n", c.ID, why)
}

func (c *Ctx) Violations() int { c.mu.Lock(); defer c.mu.Unlock(); return c.violations }

// Finish writes the evidence file and exits: 1 on violation, 2 when the run is inconclusive (too little
// observed, tool failure), 0 otherwise.
func (c *Ctx) Finish() {
	c.mu.Lock()
	wall := time.Since(c.start).Seconds()
	cov := map[string]any{
		"evaluations":         c.Evaluations,
		"distinct_nontrivial": len(c.distinct),
		"rule":                c.Rule,
		"samples":             c.Samples,
		"counters":            c.counters,
	}
	for k, v := range c.Extra {
		cov[k] = v
	}
	if len(c.Samples) == 0 {
		cov["samples"] = []any{"(no case executed)"}
	}
	kf := map[string]int{}
	for k, n := range c.knownSeen {
		kf[k] = n
	}
	cov["known_findings_matched"] = kf
	cov["inconclusive"] = c.inconcl
	ev := map[string]any{
		"property_id": c.ID,
		"tier":        map[bool]string{true: "quick", false: "thorough"}[c.Quick()],
		"seed":        c.Seed,
		"level":       c.Level,
		"coverage":    cov,
		"assumptions": c.Assumptions,
		"wall_s":      wall,
		"violations":  c.violations,
	}
	distinct := len(c.distinct)
	viol := c.violations
	inc := len(c.inconcl)
	c.mu.Unlock()
	_ = os.MkdirAll(filepath.Join(VerifRoot, "evidence"), 0o755)
	b, _ := json.MarshalIndent(ev, "", " ")
	if err := os.WriteFile(filepath.Join(VerifRoot, "evidence", c.ID+".json"), b, 0o644); err != nil {
		fmt.Fprintf(os.Stderr, "cannot write evidence: %v\n", err)
		os.Exit(2)
	}
	keys := make([]string, 0, len(c.counters))
	for k := range c.counters {
		keys = append(keys, k)
	}
	sort.Strings(keys)
	fmt.Printf("%s %s seed=%d: evaluations=%d distinct_nontrivial=%d violations=%d wall=%.1fs\n", c.ID, c.Tier, c.Seed, c.Evaluations, distinct, viol, wall)
	for _, k := range keys {
		fmt.Printf("  %-40s %d\n", k, c.counters[k])
	}
	if viol > 0 {
		os.Exit(1)
	}
	if distinct < c.MinDistinct {
		fmt.Printf("INCONCLUSIVE property=%s only %d distinct non-trivial cases observed (minimum %d)\n", c.ID, distinct, c.MinDistinct)
		os.Exit(2)
	}
	if inc > 0 {
		os.Exit(2)
	}
	fmt.Printf("HELD property=%s on everything observed\n", c.ID)
	os.Exit(0)
}
