package lib

import (
	"bytes"
	"encoding/json"
	"fmt"
	"os"
	"os/exec"
	"path/filepath"
	"runtime"
	"sort"
	"strconv"
	"strings"
	"sync"
	"syscall"
	"time"
)

// VerifRoot is the directory of the verification machinery (/verif; a snapshot of it under `vp run`).
var VerifRoot = func() string {
	if d := os.Getenv("VERIF_ROOT"); d != "" {
		return d
	}
	return "/verif"
}()

// KnownFinding is one entry of /verif/known_findings.json (read-only at run time).
type KnownFinding struct {
	Property string `json:"property"`
	Kind     string `json:"kind"` // "known" (suppresses, printed as KNOWN-FINDING) or "fixed" (suppresses nothing)
	Key      string `json:"key"`  // fingerprint computed by the check from the failing case
	What     string `json:"what"`
	Commit   string `json:"commit,omitempty"`
}

// Ctx collects what one check run observed and decides its exit status.
type Ctx struct {
	mu         sync.Mutex
	ID         string
	Tier       string
	Seed       int64
	Level      string
	start      time.Time
	known      []KnownFinding
	knownSeen  map[string]int
	violations int
	replayN    int
	inconcl    []string
	// coverage
	Evaluations     int
	distinct        map[string]struct{}
	Rule            string
	Samples         []any
	Extra           map[string]any
	Assumptions     []string
	counters        map[string]int
	sets            map[string]map[string]struct{}
	MinDistinct     int  // a run that observed fewer distinct non-trivial cases is inconclusive
	SpinIsViolation bool // C17: 15 minutes of computing on one input of at most 64 KiB is not termination either
	HangIsViolation bool // C17 (the property claims termination) and C09 (a compiled profile stays usable): a call that neither returns nor computes for the whole watchdog window is blocked
	NoDebugWorkers  bool // C18: the CLI always passes debug=false, so does the library side of the comparison
	shard           int  // -1: parent / inline; >=0: this process executes the cases i with i % shards == shard, serially
	shards          int
	pending         []pendingViolation
}

type pendingViolation struct {
	Key    string         `json:"key"`
	What   string         `json:"what"`
	Replay map[string]any `json:"replay"`
}

func NewCtx(id, tier string) *Ctx {
	seed := int64(1)
	if s := os.Getenv("VERIF_SEED"); s != "" {
		if v, err := strconv.ParseInt(s, 10, 64); err == nil {
			seed = v
		}
	}
	c := &Ctx{ID: id, Tier: tier, Seed: seed, Level: "exploration", start: time.Now(),
		knownSeen: map[string]int{}, distinct: map[string]struct{}{}, Extra: map[string]any{}, counters: map[string]int{}, sets: map[string]map[string]struct{}{}, MinDistinct: 2, shard: -1}
	if sh := os.Getenv("VERIF_SHARD"); sh != "" {
		fmt.Sscanf(sh, "%d/%d", &c.shard, &c.shards)
	} else if old, err := filepath.Glob(filepath.Join(OutRoot(), "replay", id, fmt.Sprintf("%s-seed%d-*.json", tier, seed))); err == nil {
		for _, f := range old { // replay files of an earlier run of the same (tier, seed) are stale
			_ = os.Remove(f)
		}
	}
	b, err := os.ReadFile(filepath.Join(VerifRoot, "known_findings.json"))
	if err == nil {
		var all []KnownFinding
		if err := json.Unmarshal(b, &all); err != nil {
			fmt.Fprintf(os.Stderr, "known_findings.json unreadable: %v\n", err)
			exit(2)
		}
		for _, k := range all {
			if k.Property == id && k.Kind == "known" {
				c.known = append(c.known, k)
			}
		}
	}
	return c
}

// Quick tells whether this is the quick tier.
func (c *Ctx) Quick() bool { return c.Tier != "thorough" }

// N picks the case count for the tier.
func (c *Ctx) N(quick, thorough int) int {
	if c.Quick() {
		return quick
	}
	return thorough
}

// Count bumps a named coverage counter (reported under coverage.counters).
func (c *Ctx) Count(name string, n int) {
	c.mu.Lock()
	c.counters[name] += n
	c.mu.Unlock()
}

func (c *Ctx) Counter(name string) int {
	c.mu.Lock()
	defer c.mu.Unlock()
	return c.counters[name]
}

// Eval records one executed case; key != "" marks it as a distinct non-trivial case.
func (c *Ctx) Eval(nontrivialKey string) {
	c.mu.Lock()
	c.Evaluations++
	if nontrivialKey != "" {
		c.distinct[nontrivialKey] = struct{}{}
	}
	c.mu.Unlock()
}

func (c *Ctx) Sample(s any) {
	c.mu.Lock()
	if len(c.Samples) < 6 {
		c.Samples = append(c.Samples, s)
	}
	c.mu.Unlock()
}

// Violation reports one refuting observation. key is the fingerprint matched against known findings;
// replay is written to /verif/replay/<id>/ and named on the VIOLATION line.
func (c *Ctx) Violation(key string, what string, replay map[string]any) {
	c.mu.Lock()
	defer c.mu.Unlock()
	if c.shard >= 0 {
		if len(c.pending) < 40 {
			c.pending = append(c.pending, pendingViolation{key, what, replay})
		} else {
			c.pending = append(c.pending, pendingViolation{key, what, nil})
		}
		return
	}
	for _, k := range c.known {
		if k.Key == key {
			if c.knownSeen[key] == 0 {
				fmt.Printf("KNOWN-FINDING: property=%s %s\n", c.ID, k.What)
			}
			c.knownSeen[key]++
			return
		}
	}
	c.violations++
	c.counters["violations_by_key:"+key]++
	if c.violations > 25 && c.counters["violations_by_key:"+key] > 3 { // enough witnesses; keep counting only (but at least 3 per kind)
		return
	}
	c.replayN++
	dir := filepath.Join(OutRoot(), "replay", c.ID)
	_ = os.MkdirAll(dir, 0o755)
	path := filepath.Join(dir, fmt.Sprintf("%s-seed%d-%d.json", c.Tier, c.Seed, c.replayN))
	if replay == nil {
		replay = map[string]any{}
	}
	replay["property"] = c.ID
	replay["key"] = key
	replay["what"] = what
	replay["seed"] = c.Seed
	replay["tier"] = c.Tier
	b, _ := json.MarshalIndent(replay, "", " ")
	_ = os.WriteFile(path, b, 0o644)
	fmt.Printf("VIOLATION property=%s replay=%s\n", c.ID, path)
	fmt.Printf("  what: %s\n", firstLines(what, 12))
}

func firstLines(s string, n int) string {
	lines := strings.Split(s, "\n")
	if len(lines) > n {
		lines = append(lines[:n], "...")
	}
	return strings.Join(lines, "\n        ")
}

// Inconclusive records that part of the run could not be decided (never folded into held or violated).
func (c *Ctx) Inconclusive(why string) {
	c.mu.Lock()
	c.inconcl = append(c.inconcl, why)
	c.mu.Unlock()
	fmt.Printf("INCONCLUSIVE property=%s %s\n", c.ID, why)
}

func (c *Ctx) Violations() int { c.mu.Lock(); defer c.mu.Unlock(); return c.violations }

// Finish writes the evidence file and exits: 1 on violation, 2 when the run is inconclusive (too little
// observed, tool failure), 0 otherwise.
func (c *Ctx) Finish() {
	c.mu.Lock()
	wall := time.Since(c.start).Seconds()
	cov := map[string]any{
		"evaluations":         c.Evaluations,
		"distinct_nontrivial": len(c.distinct),
		"rule":                c.Rule,
		"samples":             c.Samples,
		"counters":            c.counters,
	}
	ds := map[string]int{}
	for name, set := range c.sets {
		ds[name] = len(set)
	}
	cov["distinct_sets"] = ds
	for k, v := range c.Extra {
		cov[k] = v
	}
	if len(c.Samples) == 0 {
		cov["samples"] = []any{"(no case executed)"}
	}
	kf := map[string]int{}
	for k, n := range c.knownSeen {
		kf[k] = n
	}
	cov["known_findings_matched"] = kf
	cov["inconclusive"] = c.inconcl
	ev := map[string]any{
		"property_id": c.ID,
		"tier":        map[bool]string{true: "quick", false: "thorough"}[c.Quick()],
		"seed":        c.Seed,
		"level":       c.Level,
		"coverage":    cov,
		"assumptions": c.Assumptions,
		"wall_s":      wall,
		"violations":  c.violations,
	}
	distinct := len(c.distinct)
	viol := c.violations
	inc := len(c.inconcl)
	c.mu.Unlock()
	_ = os.MkdirAll(filepath.Join(OutRoot(), "evidence"), 0o755)
	b, _ := json.MarshalIndent(ev, "", " ")
	if err := os.WriteFile(filepath.Join(OutRoot(), "evidence", c.ID+".json"), b, 0o644); err != nil {
		fmt.Fprintf(os.Stderr, "cannot write evidence: %v\n", err)
		exit(2)
	}
	keys := make([]string, 0, len(c.counters))
	for k := range c.counters {
		keys = append(keys, k)
	}
	sort.Strings(keys)
	fmt.Printf("%s %s seed=%d: evaluations=%d distinct_nontrivial=%d violations=%d wall=%.1fs\n", c.ID, c.Tier, c.Seed, c.Evaluations, distinct, viol, wall)
	for _, k := range keys {
		fmt.Printf("  %-40s %d\n", k, c.counters[k])
	}
	if viol > 0 {
		exit(1)
	}
	if distinct < c.MinDistinct {
		fmt.Printf("INCONCLUSIVE property=%s only %d distinct non-trivial cases observed (minimum %d)\n", c.ID, distinct, c.MinDistinct)
		exit(2)
	}
	if inc > 0 {
		exit(2)
	}
	fmt.Printf("HELD property=%s on everything observed\n", c.ID)
	exit(0)
}

// Mark adds key to a named set of distinct things observed (reported as a count under coverage.distinct_sets).
func (c *Ctx) Mark(set, key string) {
	c.mu.Lock()
	if c.sets[set] == nil {
		c.sets[set] = map[string]struct{}{}
	}
	c.sets[set][key] = struct{}{}
	c.mu.Unlock()
}

func (c *Ctx) SetSize(set string) int { c.mu.Lock(); defer c.mu.Unlock(); return len(c.sets[set]) }
func (c *Ctx) InSet(set, key string) bool {
	c.mu.Lock()
	defer c.mu.Unlock()
	_, ok := c.sets[set][key]
	return ok
}

// CountersWithPrefix returns the counters whose name starts with prefix (prefix stripped).
func (c *Ctx) CountersWithPrefix(prefix string) map[string]int {
	c.mu.Lock()
	defer c.mu.Unlock()
	out := map[string]int{}
	for k, v := range c.counters {
		if strings.HasPrefix(k, prefix) {
			out[strings.TrimPrefix(k, prefix)] = v
		}
	}
	return out
}

// ---- process-per-shard execution ----
//
// Every workload that is not about concurrency runs its cases SERIALLY inside child processes (one per shard):
// the code under test is never called from two goroutines of one process, so a verdict cannot be confounded by
// a concurrency defect (that is C10's subject), sequences of calls inside one process are deterministic, and a
// Go fatal error kills one shard only (the parent sees which).

func (c *Ctx) IsShard() bool { return c.shard >= 0 }

// ShardIndex is the number of this worker (0 in an unsharded run).
func (c *Ctx) ShardIndex() int {
	if c.shard < 0 {
		return 0
	}
	return c.shard
}

// Mine tells whether case i belongs to this process.
func (c *Ctx) Mine(i int) bool { return c.shard < 0 || i%c.shards == c.shard }

// ForEach runs f serially for the cases of this shard. Cases are deterministic functions of (seed, i), so a
// case can be executed again: some are revisited right after the next case (A B A), two cases later, and the
// first few once more after all the others - an input must get the same verdict whatever the process has
// processed in between (caches, pools and memos keyed by input text are a favourite source of regressions).
func (c *Ctx) ForEach(n int, f func(i int)) {
	var mine []int
	for i := 0; i < n; i++ {
		if c.Mine(i) {
			mine = append(mine, i)
		}
	}
	// every case runs under the watchdog (checks that record their inputs call Begin themselves, with more detail):
	// a library call that blocks must end the worker, not the whole check
	g := f
	f = func(i int) {
		c.Begin(fmt.Sprintf("case %d", i), nil)
		g(i)
		c.End()
	}
	revisit := func(i int) {
		c.Count("cases_revisited_later_in_the_same_process", 1)
		f(i)
	}
	for j, i := range mine {
		f(i)
		if os.Getenv("VERIF_NO_REVISIT") != "" {
			continue
		}
		if j%7 == 3 && j >= 1 {
			revisit(mine[j-1])
		}
		if j%11 == 5 && j >= 2 {
			revisit(mine[j-2])
		}
	}
	if os.Getenv("VERIF_NO_REVISIT") == "" {
		for j := 0; j < len(mine) && j < 4 && len(mine) > 8; j++ {
			revisit(mine[j])
		}
	}
}

type shardDump struct {
	Evaluations int                 `json:"evaluations"`
	Distinct    []string            `json:"distinct"`
	Counters    map[string]int      `json:"counters"`
	Sets        map[string][]string `json:"sets"`
	Samples     []any               `json:"samples"`
	Pending     []pendingViolation  `json:"pending"`
	Inconcl     []string            `json:"inconclusive"`
}

func shardFile(id string, k int) string {
	return filepath.Join(OutRoot(), "out", "shards", fmt.Sprintf("%s-%d.json", id, k))
}

// FinishShard dumps what this shard observed for the parent and exits 0.
func (c *Ctx) FinishShard() {
	d := shardDump{Evaluations: c.Evaluations, Counters: c.counters, Samples: c.Samples, Pending: c.pending, Inconcl: c.inconcl, Sets: map[string][]string{}}
	d.Distinct = SortedKeys(c.distinct)
	for name, set := range c.sets {
		d.Sets[name] = SortedKeys(set)
	}
	b, err := json.Marshal(d)
	if err != nil {
		fmt.Fprintf(os.Stderr, "shard dump: %v\n", err)
		exit(3)
	}
	_ = os.MkdirAll(filepath.Dir(shardFile(c.ID, c.shard)), 0o755)
	if err := os.WriteFile(shardFile(c.ID, c.shard), b, 0o644); err != nil {
		fmt.Fprintf(os.Stderr, "shard dump: %v\n", err)
		exit(3)
	}
	exit(0)
}

// RunShards re-executes this binary once per shard, waits, and merges what the shards observed.
// A shard that dies (Go fatal error, signal) is a refuting observation: the library took the process down.
func (c *Ctx) RunShards() {
	w := runtime.NumCPU()
	if s := os.Getenv("VERIF_SHARDS"); s != "" {
		if v, err := strconv.Atoi(s); err == nil && v > 0 {
			w = v
		}
	}
	type res struct {
		k   int
		err error
		out string
	}
	ch := make(chan res, w)
	for k := 0; k < w; k++ {
		_ = os.Remove(shardFile(c.ID, k))
		go func(k int) {
			cmd := exec.Command(os.Args[0], os.Args[1:]...)
			cmd.Env = append(os.Environ(), fmt.Sprintf("VERIF_SHARD=%d/%d", k, w))
			if k%4 == 2 {
				// these workers run in an unusual environment: no property lets an answer depend on it
				cmd.Env = append(cmd.Env, "TZ=Pacific/Kiritimati", "SOURCE_DATE_EPOCH=1700000000", "LANG=tr_TR.UTF-8", "LC_ALL=tr_TR.UTF-8", "DEBUG=1", "VERBOSE=1", "CI=true",
					"NO_COLOR=1", "TERM=dumb", "COLUMNS=7", "LINES=3", "OPA_LOG_LEVEL=debug", "ACV_DEBUG=1", "ACV_CACHE=1", "NODE_ENV=production")
			}
			if k%4 == 1 && !c.NoDebugWorkers {
				cmd.Env = append(cmd.Env, "VERIF_DEBUG=1") // these workers call every entry point with debug=true
			} else if k%4 == 3 && !c.NoDebugWorkers {
				cmd.Env = append(cmd.Env, "VERIF_DEBUG=alt") // and these change the flag from call to call
			}
			var buf bytes.Buffer
			cmd.Stdout = &buf
			cmd.Stderr = &buf
			err := cmd.Run()
			ch <- res{k, err, buf.String()}
		}(k)
	}
	for n := 0; n < w; n++ {
		r := <-ch
		b, rerr := os.ReadFile(shardFile(c.ID, r.k))
		if r.err != nil || rerr != nil {
			tail := r.out
			if len(tail) > 6000 {
				tail = tail[:3000] + "\n...\n" + tail[len(tail)-3000:]
			}
			first := tail
			if i := strings.Index(first, "\n"); i > 0 {
				first = first[:i]
			}
			rp := map[string]any{"output": tail}
			if cur, err := os.ReadFile(currentFile(c.ID, r.k)); err == nil {
				var m map[string]any
				if json.Unmarshal(cur, &m) == nil {
					for k, v := range m {
						rp[k] = v
					}
				}
			}
			key := "shard-died"
			if ee, ok := r.err.(*exec.ExitError); ok && (ee.ExitCode() == 4 || ee.ExitCode() == 5) {
				key = "hang"
			}
			if ee, ok := r.err.(*exec.ExitError); ok && ee.ExitCode() == 5 && !c.SpinIsViolation {
				c.Inconclusive(fmt.Sprintf("worker %d/%d: case %v was still computing when the watchdog gave up (%s)", r.k, w, rp["case"], first))
				continue
			}
			if key == "hang" && !c.HangIsViolation {
				// a wall-clock deadline is not a verdict: only the property that claims termination (C17) turns it into one
				c.Inconclusive(fmt.Sprintf("worker %d/%d: case %v did not return within the %s watchdog", r.k, w, rp["case"], CaseWatchdog))
				continue
			}
			c.Violation(key, fmt.Sprintf("worker process %d/%d died while driving the library (%v) in case %v: %s", r.k, w, r.err, rp["case"], first), rp)
			continue
		}
		var d shardDump
		if err := json.Unmarshal(b, &d); err != nil {
			c.Inconclusive(fmt.Sprintf("shard %d dump unreadable: %v", r.k, err))
			continue
		}
		c.Evaluations += d.Evaluations
		for _, k := range d.Distinct {
			c.distinct[k] = struct{}{}
		}
		for k, v := range d.Counters {
			c.counters[k] += v
		}
		for name, keys := range d.Sets {
			for _, k := range keys {
				c.Mark(name, k)
			}
		}
		for _, s := range d.Samples {
			c.Sample(s)
		}
		for _, p := range d.Pending {
			c.Violation(p.Key, p.What, p.Replay)
		}
		for _, s := range d.Inconcl {
			c.Inconclusive(s)
		}
		_ = os.Remove(shardFile(c.ID, r.k))
	}
}

// ---- crash / hang bookkeeping inside a shard ----

func currentFile(id string, k int) string {
	return filepath.Join(OutRoot(), "out", "shards", fmt.Sprintf("%s-%d.current.json", id, k))
}

var watchdogMu sync.Mutex
var watchdogDeadline time.Time
var watchdogOnce sync.Once

// Begin records the case about to be executed on disk BEFORE the library is called (a Go fatal error cannot be
// recovered: the parent reads this file to name the killer case) and arms the per-case watchdog.
func (c *Ctx) Begin(caseID string, inputs map[string]string) {
	if c.shard < 0 {
		return
	}
	m := map[string]any{"case": caseID}
	for k, v := range inputs {
		m[k] = v
	}
	b, _ := json.Marshal(m)
	_ = os.MkdirAll(filepath.Join(OutRoot(), "out", "shards"), 0o755)
	_ = os.WriteFile(currentFile(c.ID, c.shard), b, 0o644)
	watchdogMu.Lock()
	watchdogDeadline = time.Now().Add(CaseWatchdog)
	watchdogCPU = processCPU()
	watchdogWindows = 0
	watchdogMu.Unlock()
	watchdogOnce.Do(func() {
		go func() {
			for {
				time.Sleep(time.Second)
				watchdogMu.Lock()
				expired := !watchdogDeadline.IsZero() && time.Now().After(watchdogDeadline)
				var used time.Duration
				if expired {
					now := processCPU()
					used = now - watchdogCPU
					if used > 10*time.Second && watchdogWindows < 4 {
						// the process is computing (slow case, loaded machine): not blocked; look again after another window
						watchdogDeadline = time.Now().Add(CaseWatchdog)
						watchdogCPU = now
						watchdogWindows++
						expired = false
					}
				}
				windows := watchdogWindows
				watchdogMu.Unlock()
				if expired {
					if used <= 10*time.Second {
						fmt.Fprintf(os.Stderr, "WATCHDOG: case did not return within %s and the process used %s of CPU meanwhile: blocked\n", CaseWatchdog, used)
						exit(4)
					}
					fmt.Fprintf(os.Stderr, "WATCHDOG: case still computing after %d windows of %s\n", windows+1, CaseWatchdog)
					exit(5)
				}
			}
		}()
	})
}

var (
	watchdogCPU     time.Duration
	watchdogWindows int
)

// TempDir creates a scratch directory that is removed when the process leaves through any exit of the harness
// (Finish, FinishShard, the watchdog): `defer os.RemoveAll` does not run on os.Exit.
func TempDir(prefix string) string {
	d, err := os.MkdirTemp("", prefix)
	if err != nil {
		return os.TempDir()
	}
	tempMu.Lock()
	tempDirs = append(tempDirs, d)
	tempMu.Unlock()
	return d
}

var (
	tempMu   sync.Mutex
	tempDirs []string
)

// exit removes the scratch directories and ends the process.
func exit(code int) {
	tempMu.Lock()
	for _, d := range tempDirs {
		_ = os.RemoveAll(d)
	}
	tempMu.Unlock()
	os.Exit(code)
}

// processCPU: user+system CPU time consumed so far by this process and by the helper processes it has waited for.
func processCPU() time.Duration {
	// own threads plus the helper processes already waited for (fresh-process references, CLI runs, strace children):
	// a worker that waits for helpers is not blocked
	var total time.Duration
	for _, who := range []int{syscall.RUSAGE_SELF, syscall.RUSAGE_CHILDREN} {
		var ru syscall.Rusage
		if err := syscall.Getrusage(who, &ru); err == nil {
			total += time.Duration(ru.Utime.Nano() + ru.Stime.Nano())
		}
	}
	return total
}

// End disarms the watchdog.
func (c *Ctx) End() {
	watchdogMu.Lock()
	watchdogDeadline = time.Time{}
	watchdogMu.Unlock()
}

// CaseWatchdog is a generous wall-clock guard (cases take milliseconds); its firing is reported separately
// from oracle verdicts (key "hang").
var CaseWatchdog = 180 * time.Second

// First tells whether this process is the first shard (for counting things every shard enumerates identically).
func (c *Ctx) First() bool { return c.shard <= 0 }

// EvalDistinctOnly registers a distinct non-trivial case that was already counted in Evaluations.
func (c *Ctx) EvalDistinctOnly(key string) {
	c.mu.Lock()
	c.distinct[key] = struct{}{}
	c.mu.Unlock()
}

// OutRoot is where evidence, replay files and scratch output go: /verif, unless VERIF_OUTROOT points a
// sensitivity experiment (a run against a scratch copy of the repository) somewhere else.
func OutRoot() string {
	if d := os.Getenv("VERIF_OUTROOT"); d != "" {
		return d
	}
	return VerifRoot
}
