package lib

import (
	"bytes"
	"encoding/json"
	"fmt"
	"sort"
)

// ---- abstract graph model (independent of the code under test) ----

const EX = "http://ex.org/"

// Value is a node reference or a literal (string, int64, bool).
type Value struct {
	Ref string // non-empty: reference to the node with this IRI
	Lit any    // string | int64 | bool (when Ref == "")
}

func RefV(id string) Value   { return Value{Ref: id} }
func StrV(s string) Value    { return Value{Lit: s} }
func IntV(i int64) Value     { return Value{Lit: i} }
func BoolV(b bool) Value     { return Value{Lit: b} }
func FloatV(f float64) Value { return Value{Lit: f} } // fractional values only (integers are IntV)

func (v Value) IsRef() bool { return v.Ref != "" }

// Key identifies the value for set semantics ("one value for counting").
func (v Value) Key() string {
	if v.IsRef() {
		return "R:" + v.Ref
	}
	switch l := v.Lit.(type) {
	case string:
		return "S:" + l
	case int64:
		return fmt.Sprintf("I:%d", l)
	case bool:
		return fmt.Sprintf("B:%t", l)
	case float64:
		return fmt.Sprintf("F:%v", l)
	}
	return fmt.Sprintf("?:%v", v.Lit)
}

// AsString is the documented string form used by in/containsAll/containsSome.
func (v Value) AsString() string {
	if v.IsRef() {
		return v.Ref
	}
	switch l := v.Lit.(type) {
	case string:
		return l
	case int64:
		return fmt.Sprintf("%d", l)
	case bool:
		return fmt.Sprintf("%t", l)
	}
	return fmt.Sprintf("%v", v.Lit)
}

type Prop struct {
	Pred   string // full IRI
	Values []Value
}

type Node struct {
	ID    string
	Types []string // full IRIs
	Props []Prop   // ordered; one entry per predicate
}

func (n *Node) Get(pred string) []Value {
	for _, p := range n.Props {
		if p.Pred == pred {
			return p.Values
		}
	}
	return nil
}

func (n *Node) Add(pred string, vs ...Value) {
	for i := range n.Props {
		if n.Props[i].Pred == pred {
			n.Props[i].Values = append(n.Props[i].Values, vs...)
			return
		}
	}
	n.Props = append(n.Props, Prop{Pred: pred, Values: append([]Value{}, vs...)})
}

func (n *Node) HasType(t string) bool {
	for _, x := range n.Types {
		if x == t {
			return true
		}
	}
	return false
}

type Graph struct {
	Nodes []*Node
	idx   map[string]*Node
}

func NewGraph() *Graph { return &Graph{idx: map[string]*Node{}} }

func (g *Graph) AddNode(id string, types ...string) *Node {
	if n, ok := g.idx[id]; ok {
		return n
	}
	n := &Node{ID: id, Types: append([]string{}, types...)}
	g.Nodes = append(g.Nodes, n)
	g.idx[id] = n
	return n
}

func (g *Graph) Node(id string) *Node { return g.idx[id] }

func (g *Graph) OfType(t string) []*Node {
	var out []*Node
	for _, n := range g.Nodes {
		if n.HasType(t) {
			out = append(out, n)
		}
	}
	return out
}

// ---- canonical JSON-LD rendering: flat array, expanded IRIs, arrays everywhere ----

func litJSON(v Value) any {
	switch l := v.Lit.(type) {
	case int64:
		return map[string]any{"@value": json.Number(fmt.Sprintf("%d", l))}
	case float64:
		return map[string]any{"@value": json.Number(fmt.Sprintf("%v", l))}
	default:
		return map[string]any{"@value": l}
	}
}

func valueJSON(v Value) any {
	if v.IsRef() {
		return map[string]any{"@id": v.Ref}
	}
	return litJSON(v)
}

// NodeObject renders one node in expanded form.
func NodeObject(n *Node) map[string]any {
	o := map[string]any{"@id": n.ID}
	if len(n.Types) > 0 {
		ts := make([]any, len(n.Types))
		for i, t := range n.Types {
			ts[i] = t
		}
		o["@type"] = ts
	}
	for _, p := range n.Props {
		vs := make([]any, len(p.Values))
		for i, v := range p.Values {
			vs[i] = valueJSON(v)
		}
		o[p.Pred] = vs
	}
	return o
}

// CanonicalJSONLD is the reference serialisation of the graph.
func (g *Graph) CanonicalJSONLD() string {
	arr := make([]any, len(g.Nodes))
	for i, n := range g.Nodes {
		arr[i] = NodeObject(n)
	}
	return MustJSON(arr)
}

func MustJSON(v any) string {
	var b bytes.Buffer
	enc := json.NewEncoder(&b)
	enc.SetEscapeHTML(false)
	if err := enc.Encode(v); err != nil {
		panic(err)
	}
	return b.String()
}

func MustJSONIndent(v any) string {
	var b bytes.Buffer
	enc := json.NewEncoder(&b)
	enc.SetEscapeHTML(false)
	enc.SetIndent("", "  ")
	if err := enc.Encode(v); err != nil {
		panic(err)
	}
	return b.String()
}

// SortedKeys of a string-keyed map.
func SortedKeys[V any](m map[string]V) []string {
	ks := make([]string, 0, len(m))
	for k := range m {
		ks = append(ks, k)
	}
	sort.Strings(ks)
	return ks
}
