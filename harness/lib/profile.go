package lib

import (
	"fmt"
	"strings"
)

// ---- profile document model (what a profile author writes), printed through the YAML model ----

// Expr is one "expression value" of the profile language: a mapping with exactly one of
// propertyConstraints / and / or / not / if-then(-else).
type Expr interface{ exprNode() }

// PC is a propertyConstraints mapping: path string -> constraint mapping (implicit conjunction).
type PC struct{ Entries []PCEntry }
type PCEntry struct {
	Path        string
	Constraints []Constraint
}

// Constraint is one key of a constraint mapping.
type Constraint struct {
	Key   string
	Value YNode // scalar / sequence; for nested: *ExprHolder
	Inner Expr  // for nested / atLeast / atMost
	Count int   // for atLeast / atMost
}

type AndE struct{ Items []Expr }
type OrE struct{ Items []Expr }
type NotE struct{ Item Expr }
type IfE struct{ If, Then, Else Expr } // Else may be nil

// RawE is an expression value given directly as YAML (e.g. an inline `rego:` block).
type RawE struct{ Map *YMap }

func (RawE) exprNode() {}
func (PC) exprNode()   {}
func (AndE) exprNode() {}
func (OrE) exprNode()  {}
func (NotE) exprNode() {}
func (IfE) exprNode()  {}

// ExprYAML renders the expression as the mapping to be merged into a validation (or nested) body.
func ExprYAML(e Expr) *YMap {
	m := NewYMap()
	switch v := e.(type) {
	case PC:
		pc := NewYMap()
		for _, en := range v.Entries {
			cm := NewYMap()
			for _, c := range en.Constraints {
				switch c.Key {
				case "nested":
					cm.Set("nested", ExprYAML(c.Inner))
				case "atLeast", "atMost":
					q := NewYMap()
					q.Set("count", Int(c.Count))
					q.Set("validation", ExprYAML(c.Inner))
					cm.Set(c.Key, q)
				default:
					cm.Set(c.Key, c.Value)
				}
			}
			pc.Set(en.Path, cm)
		}
		m.Set("propertyConstraints", pc)
	case AndE:
		s := &YSeq{}
		for _, it := range v.Items {
			s.Items = append(s.Items, ExprYAML(it))
		}
		m.Set("and", s)
	case OrE:
		s := &YSeq{}
		for _, it := range v.Items {
			s.Items = append(s.Items, ExprYAML(it))
		}
		m.Set("or", s)
	case NotE:
		m.Set("not", ExprYAML(v.Item))
	case IfE:
		m.Set("if", ExprYAML(v.If))
		m.Set("then", ExprYAML(v.Then))
		if v.Else != nil {
			m.Set("else", ExprYAML(v.Else))
		}
	case RawE:
		return v.Map
	default:
		panic(fmt.Sprintf("unknown expr %T", e))
	}
	return m
}

type Validation struct {
	Name        string
	TargetClass string // compact form prefix.Local
	Message     string // "" -> no message key
	MessageRaw  YNode  // when set, emitted as the value of `message:` instead of Message (null, list, map, ...)
	Body        Expr
}

type ProfileDoc struct {
	Name      string
	Prefixes  [][2]string // ordered (prefix, namespace)
	Violation []string
	Warning   []string
	Info      []string
	// level keys are emitted only when the corresponding Has* flag is set or the list is non-empty
	HasViolation, HasWarning, HasInfo bool
	Validations                       []Validation
	RegoExtensions                    string
}

func (p *ProfileDoc) YAML() *YMap {
	m := NewYMap()
	m.Set("profile", Str(p.Name))
	if len(p.Prefixes) > 0 {
		pm := NewYMap()
		for _, kv := range p.Prefixes {
			pm.Set(kv[0], Str(kv[1]))
		}
		m.Set("prefixes", pm)
	}
	if p.RegoExtensions != "" {
		m.Set("rego_extensions", Str(p.RegoExtensions))
	}
	if p.HasViolation || len(p.Violation) > 0 {
		m.Set("violation", StrSeq(p.Violation...))
	}
	if p.HasWarning || len(p.Warning) > 0 {
		m.Set("warning", StrSeq(p.Warning...))
	}
	if p.HasInfo || len(p.Info) > 0 {
		m.Set("info", StrSeq(p.Info...))
	}
	vm := NewYMap()
	for _, v := range p.Validations {
		vm.Set(v.Name, ValidationYAML(v))
	}
	m.Set("validations", vm)
	return m
}

func ValidationYAML(v Validation) *YMap {
	b := NewYMap()
	if v.MessageRaw != nil {
		b.Set("message", v.MessageRaw)
	} else if v.Message != "" {
		b.Set("message", Str(v.Message))
	}
	b.Set("targetClass", Str(v.TargetClass))
	body := ExprYAML(v.Body)
	for i, k := range body.Keys {
		b.Keys = append(b.Keys, k)
		b.Vals = append(b.Vals, body.Vals[i])
	}
	return b
}

// Text renders the profile with the default printer.
func (p *ProfileDoc) Text() string {
	return "#%Validation Profile 1.0\n" + PrintYAML(p.YAML(), &YPrintOpts{Indent: 2})
}

func (p *ProfileDoc) PrefixMap() map[string]string {
	m := map[string]string{}
	for _, kv := range p.Prefixes {
		m[kv[0]] = kv[1]
	}
	return m
}

func (p *ProfileDoc) ValidationNames() map[string]bool {
	m := map[string]bool{}
	for _, v := range p.Validations {
		m[v.Name] = true
	}
	return m
}

// helpers to build constraints

func CScalar(key string, v YScalar) Constraint { return Constraint{Key: key, Value: v} }
func CList(key string, items ...string) Constraint {
	return Constraint{Key: key, Value: StrSeq(items...)}
}
func CNested(inner Expr) Constraint { return Constraint{Key: "nested", Inner: inner} }
func CAtLeast(n int, inner Expr) Constraint {
	return Constraint{Key: "atLeast", Count: n, Inner: inner}
}
func CAtMost(n int, inner Expr) Constraint { return Constraint{Key: "atMost", Count: n, Inner: inner} }
func PC1(path string, cs ...Constraint) PC {
	return PC{Entries: []PCEntry{{Path: path, Constraints: cs}}}
}
func CompactIRI(prefix, local string) string { return prefix + "." + local }
func ExpandCompact(pm map[string]string, c string) string {
	i := strings.Index(c, ".")
	if i < 0 {
		return c
	}
	return pm[c[:i]] + c[i+1:]
}
