// Package lib holds the common machinery of the runtime-monitoring harness: wrappers around the real entry
// points of amf-custom-validator, seeded generators, reference models and the evidence / verdict plumbing.
package lib

import (
	"fmt"
	"os"
	"runtime/debug"
	"sync/atomic"
	"time"

	"github.com/aml-org/amf-custom-validator/pkg"
	"github.com/aml-org/amf-custom-validator/pkg/config"
	"github.com/aml-org/amf-custom-validator/pkg/events"
	"github.com/open-policy-agent/opa/rego"
)

// Debug gives the value passed as the `debug` argument of every entry point by the wrappers below. No property
// depends on it: workers 1, 5, 9, 13 pass true throughout (VERIF_DEBUG=1, inherited by helper processes), workers 3, 7,
// 11, 15 change it from call to call (VERIF_DEBUG=alt: a call with debug=true follows calls with debug=false and back,
// inside one process, in a fixed pseudo-random pattern).
var debugMode = os.Getenv("VERIF_DEBUG")
var debugCalls uint64

func Debug() bool {
	switch debugMode {
	case "1":
		return true
	case "alt":
		n := atomic.AddUint64(&debugCalls, 1)
		return (n*2654435761>>5)&1 == 1
	}
	return false
}

// FixedClock is the injected ValidationConfiguration: no oracle ever depends on the wall clock.
type FixedClock struct{ T time.Time }

func (f FixedClock) ReportCreationTime() time.Time { return f.T }

var Epoch2000 = FixedClock{time.Date(2000, time.November, 28, 0, 0, 0, 0, time.UTC)}

// Outcome of one call of an entry point, observed at the client boundary.
type Outcome struct {
	Report string
	Err    error
	Panic  any    // recovered panic value (nil if none)
	Stack  string // stack of the panic
}

func (o Outcome) ErrString() string {
	if o.Panic != nil {
		return fmt.Sprintf("PANIC: %v", o.Panic)
	}
	if o.Err != nil {
		return o.Err.Error()
	}
	return ""
}

func (o Outcome) Failed() bool { return o.Err != nil || o.Panic != nil }

func guard(o *Outcome) {
	if r := recover(); r != nil {
		o.Panic = r
		o.Stack = string(debug.Stack())
	}
}

// Validate calls pkg.ValidateWithConfiguration with the fixed clock and the default report configuration.
func Validate(profile, data string) (o Outcome) {
	return ValidateCfg(profile, data, nil, Epoch2000, config.DefaultReportConfiguration())
}

func ValidateCfg(profile, data string, ch *chan events.Event, vc config.ValidationConfiguration, rc config.ReportConfiguration) (o Outcome) {
	defer guard(&o)
	o.Report, o.Err = pkg.ValidateWithConfiguration(profile, data, Debug(), ch, vc, rc)
	return
}

// ValidateDefault calls pkg.Validate (wall clock inside the report).
func ValidateDefault(profile, data string, ch *chan events.Event) (o Outcome) {
	defer guard(&o)
	o.Report, o.Err = pkg.Validate(profile, data, Debug(), ch)
	return
}

type Compiled struct {
	Q     *rego.PreparedEvalQuery
	Err   error
	Panic any
	Stack string
}

func (c Compiled) Failed() bool { return c.Err != nil || c.Panic != nil || c.Q == nil }
func (c Compiled) ErrString() string {
	if c.Panic != nil {
		return fmt.Sprintf("PANIC: %v", c.Panic)
	}
	if c.Err != nil {
		return c.Err.Error()
	}
	if c.Q == nil {
		return "nil compiled profile without error"
	}
	return ""
}

func Compile(profile string, ch *chan events.Event) (c Compiled) {
	defer func() {
		if r := recover(); r != nil {
			c.Panic = r
			c.Stack = string(debug.Stack())
		}
	}()
	c.Q, c.Err = pkg.CompileProfile(profile, Debug(), ch)
	return
}

func ValidateCompiled(q *rego.PreparedEvalQuery, data string) Outcome {
	return ValidateCompiledCfg(q, data, nil, Epoch2000, config.DefaultReportConfiguration())
}

func ValidateCompiledCfg(q *rego.PreparedEvalQuery, data string, ch *chan events.Event, vc config.ValidationConfiguration, rc config.ReportConfiguration) (o Outcome) {
	defer guard(&o)
	o.Report, o.Err = pkg.ValidateCompiledWithConfiguration(q, data, Debug(), ch, vc, rc)
	return
}

func ValidateCompiledDefault(q *rego.PreparedEvalQuery, data string, ch *chan events.Event) (o Outcome) {
	defer guard(&o)
	o.Report, o.Err = pkg.ValidateCompiled(q, data, Debug(), ch)
	return
}

// CompileDebug calls pkg.CompileProfile with the given debug flag.
func CompileDebug(profile string, debug bool, ch *chan events.Event) (c Compiled) {
	defer func() {
		if r := recover(); r != nil {
			c.Panic = r
			c.Stack = string(debug2Stack())
		}
	}()
	c.Q, c.Err = pkg.CompileProfile(profile, debug, ch)
	return
}

func debug2Stack() []byte { return debug.Stack() }

// ValidateDebug calls pkg.ValidateWithConfiguration with the given debug flag (fixed clock, default report configuration).
func ValidateDebug(profile, data string, dbg bool, ch *chan events.Event) (o Outcome) {
	defer guard(&o)
	o.Report, o.Err = pkg.ValidateWithConfiguration(profile, data, dbg, ch, Epoch2000, config.DefaultReportConfiguration())
	return
}
