package lib

import (
	"fmt"
	"strings"
)

// ---- property path reference model (documented grammar; `|` binds tighter than `/`) ----
//
//   Expression = Term ( _ "/" _ Term )*
//   Term       = Factor ( _ "|" _ Factor )*
//   Factor     = "(" _ Expression _ ")" | Iri | "@type"
//   Iri        = name "." local _ "^"?
//
// The whole string must be consumed (trailing whitespace after an Iri / closing parenthesis is tolerated,
// leading whitespace is outside the judged alphabet).

type Path interface{ pathNode() }

type Pred struct {
	Prefix  string
	Local   string
	Inverse bool
}
type TypeStep struct{}
type Seq struct{ Items []Path }
type Alt struct{ Items []Path }

func (Pred) pathNode()     {}
func (TypeStep) pathNode() {}
func (Seq) pathNode()      {}
func (Alt) pathNode()      {}

// PathPrintOpts controls surface variation that must not change the structure.
type PathPrintOpts struct {
	ExtraParens func() bool // wrap a factor in redundant parentheses
	Space       func() string
}

func PrintPath(p Path) string { return printPath(p, 0, nil) }

func PrintPathVariant(p Path, o *PathPrintOpts) string { return printPath(p, 0, o) }

// ctx: 0 = top / inside parentheses, 1 = operand of "/", 2 = operand of "|"
func printPath(p Path, ctx int, o *PathPrintOpts) string {
	sp := func() string {
		if o != nil && o.Space != nil {
			return o.Space()
		}
		return " "
	}
	wrap := func(s string) string {
		if o != nil && o.ExtraParens != nil && o.ExtraParens() {
			return "(" + s + ")"
		}
		return s
	}
	switch v := p.(type) {
	case Pred:
		s := v.Prefix + "." + v.Local
		if v.Inverse {
			s += "^"
		}
		return wrap(s)
	case TypeStep:
		return wrap("@type")
	case Alt:
		parts := make([]string, len(v.Items))
		for i, it := range v.Items {
			parts[i] = printPath(it, 2, o)
		}
		// separators must contain whitespace around "/" only; "|" may be tight but we always space it
		s := strings.Join(parts, sp()+"|"+sp())
		if ctx == 2 {
			return "(" + s + ")"
		}
		return wrap(s)
	case Seq:
		parts := make([]string, len(v.Items))
		for i, it := range v.Items {
			parts[i] = printPath(it, 1, o)
		}
		s := strings.Join(parts, " "+sp()+"/"+sp()+" ")
		if ctx != 0 {
			return "(" + s + ")"
		}
		return wrap(s)
	}
	panic("unknown path node")
}

// ---- reference recogniser + AST builder ----

type pathParser struct {
	s   string
	pos int
}

func isNameByte(c byte) bool {
	return c >= 'a' && c <= 'z' || c >= 'A' && c <= 'Z' || c >= '0' && c <= '9' || c == '_' || c == '-'
}

func (p *pathParser) ws() {
	for p.pos < len(p.s) && (p.s[p.pos] == ' ' || p.s[p.pos] == '\t' || p.s[p.pos] == '\n' || p.s[p.pos] == '\r') {
		p.pos++
	}
}

func (p *pathParser) expression() (Path, bool) {
	head, ok := p.term()
	if !ok {
		return nil, false
	}
	items := []Path{head}
	for {
		save := p.pos
		p.ws()
		if p.pos < len(p.s) && p.s[p.pos] == '/' {
			p.pos++
			p.ws()
			t, ok := p.term()
			if !ok {
				p.pos = save
				break
			}
			items = append(items, t)
			continue
		}
		p.pos = save
		break
	}
	if len(items) == 1 {
		return head, true
	}
	return Seq{items}, true
}

func (p *pathParser) term() (Path, bool) {
	head, ok := p.factor()
	if !ok {
		return nil, false
	}
	items := []Path{head}
	for {
		save := p.pos
		p.ws()
		if p.pos < len(p.s) && p.s[p.pos] == '|' {
			p.pos++
			p.ws()
			f, ok := p.factor()
			if !ok {
				p.pos = save
				break
			}
			items = append(items, f)
			continue
		}
		p.pos = save
		break
	}
	if len(items) == 1 {
		return head, true
	}
	return Alt{items}, true
}

func (p *pathParser) factor() (Path, bool) {
	if p.pos < len(p.s) && p.s[p.pos] == '(' {
		save := p.pos
		p.pos++
		p.ws()
		e, ok := p.expression()
		if ok {
			p.ws()
			if p.pos < len(p.s) && p.s[p.pos] == ')' {
				p.pos++
				return e, true
			}
		}
		p.pos = save
		return nil, false
	}
	if strings.HasPrefix(p.s[p.pos:], "@type") {
		p.pos += 5
		return TypeStep{}, true
	}
	// Iri
	save := p.pos
	start := p.pos
	for p.pos < len(p.s) && isNameByte(p.s[p.pos]) {
		p.pos++
	}
	if p.pos == start || p.pos >= len(p.s) || p.s[p.pos] != '.' {
		p.pos = save
		return nil, false
	}
	prefix := p.s[start:p.pos]
	p.pos++
	lstart := p.pos
	for p.pos < len(p.s) && (isNameByte(p.s[p.pos]) || p.s[p.pos] == '.' || p.s[p.pos] == '/' || p.s[p.pos] == '\\') {
		p.pos++
	}
	if p.pos == lstart {
		p.pos = save
		return nil, false
	}
	local := p.s[lstart:p.pos]
	p.ws()
	inv := false
	if p.pos < len(p.s) && p.s[p.pos] == '^' {
		inv = true
		p.pos++
	}
	return Pred{Prefix: prefix, Local: local, Inverse: inv}, true
}

// ParsePathRef parses s with the reference grammar; ok is false unless the whole string is a sentence.
func ParsePathRef(s string) (Path, bool) {
	p := &pathParser{s: s}
	e, ok := p.expression()
	if !ok {
		return nil, false
	}
	p.ws()
	if p.pos != len(s) {
		return nil, false
	}
	return e, true
}

// CanonPath prints the structure unambiguously (full parenthesisation), for structural comparison.
func CanonPath(p Path) string {
	switch v := p.(type) {
	case Pred:
		s := v.Prefix + "." + v.Local
		if v.Inverse {
			s += "^"
		}
		return s
	case TypeStep:
		return "@type"
	case Alt:
		parts := make([]string, len(v.Items))
		for i, it := range v.Items {
			parts[i] = CanonPath(it)
		}
		return "alt(" + strings.Join(parts, ",") + ")"
	case Seq:
		parts := make([]string, len(v.Items))
		for i, it := range v.Items {
			parts[i] = CanonPath(it)
		}
		return "seq(" + strings.Join(parts, ",") + ")"
	}
	return "?"
}

// ---- denotation over the graph model ----

// ValueSet is a set of values keyed by Value.Key().
type ValueSet map[string]Value

func (s ValueSet) Add(v Value)    { s[v.Key()] = v }
func (s ValueSet) Keys() []string { return SortedKeys(s) }

// Denote returns the set of values the path reaches from the focus node. prefixes maps prefix -> namespace.
func Denote(g *Graph, p Path, focus string, prefixes map[string]string) ValueSet {
	start := ValueSet{}
	start.Add(RefV(focus))
	return denote(g, p, start, prefixes)
}

func denote(g *Graph, p Path, from ValueSet, prefixes map[string]string) ValueSet {
	out := ValueSet{}
	switch v := p.(type) {
	case Pred:
		iri := prefixes[v.Prefix] + strings.ReplaceAll(v.Local, "\\/", "/")
		for _, src := range from {
			if !src.IsRef() {
				continue
			}
			n := g.Node(src.Ref)
			if n == nil {
				continue // dangling reference: not a node of the graph
			}
			if v.Inverse {
				for _, s := range g.Nodes {
					for _, o := range s.Get(iri) {
						if o.IsRef() && o.Ref == n.ID {
							out.Add(RefV(s.ID))
						}
					}
				}
			} else {
				for _, o := range n.Get(iri) {
					out.Add(o)
				}
			}
		}
	case TypeStep:
		for _, src := range from {
			if !src.IsRef() {
				continue
			}
			if n := g.Node(src.Ref); n != nil {
				for _, t := range n.Types {
					out.Add(StrV(t))
				}
			}
		}
	case Seq:
		cur := from
		for _, it := range v.Items {
			cur = denote(g, it, cur, prefixes)
		}
		return cur
	case Alt:
		for _, it := range v.Items {
			for _, x := range denote(g, it, from, prefixes) {
				out.Add(x)
			}
		}
	default:
		panic(fmt.Sprintf("unknown path %T", p))
	}
	return out
}

// NodesOf keeps the values that are nodes present in the graph.
func NodesOf(g *Graph, s ValueSet) []string {
	var out []string
	for _, k := range s.Keys() {
		v := s[k]
		if v.IsRef() && g.Node(v.Ref) != nil {
			out = append(out, v.Ref)
		}
	}
	return out
}
