package lib

import (
	"encoding/json"
	"fmt"
	"math/rand"
	"strings"

	"github.com/piprate/json-gold/ld"
)

// ---- one abstract graph -> many JSON-LD documents denoting the same graph (C05) ----

// ordered JSON values: OObj keeps key order, everything else is plain.
type OObj struct {
	Keys []string
	Vals []any
}

func (o *OObj) Set(k string, v any) {
	for i, kk := range o.Keys {
		if kk == k {
			o.Vals[i] = v
			return
		}
	}
	o.Keys = append(o.Keys, k)
	o.Vals = append(o.Vals, v)
}

func (o *OObj) shuffle(r *rand.Rand) {
	r.Shuffle(len(o.Keys), func(i, j int) {
		o.Keys[i], o.Keys[j] = o.Keys[j], o.Keys[i]
		o.Vals[i], o.Vals[j] = o.Vals[j], o.Vals[i]
	})
}

type jsonStyle struct {
	indent string // "" compact
	nl     string
	colon  string
	r      *rand.Rand
}

func emitJSON(b *strings.Builder, v any, st *jsonStyle, level int) {
	pad := func(l int) string {
		if st.indent == "" {
			return ""
		}
		return st.nl + strings.Repeat(st.indent, l)
	}
	switch x := v.(type) {
	case *OObj:
		if len(x.Keys) == 0 {
			b.WriteString("{}")
			return
		}
		b.WriteString("{")
		for i, k := range x.Keys {
			if i > 0 {
				b.WriteString(",")
			}
			b.WriteString(pad(level + 1))
			kb, _ := json.Marshal(k)
			b.Write(kb)
			b.WriteString(st.colon)
			emitJSON(b, x.Vals[i], st, level+1)
		}
		b.WriteString(pad(level))
		b.WriteString("}")
	case []any:
		if len(x) == 0 {
			b.WriteString("[]")
			return
		}
		b.WriteString("[")
		for i, e := range x {
			if i > 0 {
				b.WriteString(",")
			}
			b.WriteString(pad(level + 1))
			emitJSON(b, e, st, level+1)
		}
		b.WriteString(pad(level))
		b.WriteString("]")
	case int64:
		b.WriteString(fmt.Sprintf("%d", x))
	default:
		jb, _ := json.Marshal(x)
		b.Write(jb)
	}
}

type VariantOpts struct {
	R *rand.Rand
}

// Variant renders the graph in a randomly chosen surface form and returns the list of transformations applied.
func (g *Graph) Variant(r *rand.Rand) (string, []string) {
	// some edges n --p--> m are written the other way round: on an extra node object for m, {"@reverse": {p: {"@id": n}}}
	type revEdge struct{ subj, pred, obj string }
	var reversed []revEdge
	if r.Intn(3) == 0 {
		h := NewGraph()
		for _, n := range g.Nodes {
			nn := h.AddNode(n.ID, n.Types...)
			for _, p := range n.Props {
				for _, v := range p.Values {
					if v.IsRef() && g.Node(v.Ref) != nil && len(p.Values) > 1 && r.Intn(3) == 0 {
						reversed = append(reversed, revEdge{n.ID, p.Pred, v.Ref})
						continue
					}
					nn.Add(p.Pred, v)
				}
			}
		}
		if len(reversed) > 0 {
			g = h
		}
	}
	var applied []string
	mark := func(s string) {
		for _, a := range applied {
			if a == s {
				return
			}
		}
		applied = append(applied, s)
	}
	// --- IRI compaction strategy
	mode := r.Intn(5) // 0 none, 1 prefix, 2 @vocab, 3 term definitions, 4 prefix + @base
	useBase := mode == 4 || r.Intn(4) == 0
	// "plain" family: context-free, flat, absolute IRIs, native scalars - the shape AMF itself emits - on which the
	// remaining transformations (order, repetition, splitting, single values) are applied
	plain := r.Intn(4) == 0
	if plain {
		mode, useBase = 0, false
		mark("plain-flat-context-free")
	}
	ctx := &OObj{}
	switch mode {
	case 1, 4:
		ctx.Set("ex", EX)
		mark("prefix-compaction")
	case 2:
		ctx.Set("@vocab", EX)
		mark("@vocab")
	case 3:
		mark("term-definitions")
	}
	if useBase {
		ctx.Set("@base", EX)
		mark("@base-relative-ids")
	}
	termFor := map[string]string{}
	compactPred := func(iri string) string {
		if !strings.HasPrefix(iri, EX) {
			return iri
		}
		local := strings.TrimPrefix(iri, EX)
		switch mode {
		case 1, 4:
			return "ex:" + local
		case 2:
			return local
		case 3:
			t := "t_" + local
			if _, ok := termFor[iri]; !ok {
				termFor[iri] = t
				def := &OObj{}
				def.Set("@id", iri)
				ctx.Set(t, def)
			}
			return t
		}
		return iri
	}
	compactType := func(iri string) string {
		if !strings.HasPrefix(iri, EX) {
			return iri
		}
		local := strings.TrimPrefix(iri, EX)
		switch mode {
		case 1, 4:
			return "ex:" + local
		case 2:
			return local
		}
		return iri
	}
	compactID := func(iri string) string {
		if !strings.HasPrefix(iri, EX) {
			return iri
		}
		local := strings.TrimPrefix(iri, EX)
		if useBase && r.Intn(3) != 0 {
			return local
		}
		if (mode == 1 || mode == 4) && r.Intn(2) == 0 && !strings.Contains(local, "/") {
			return "ex:" + local
		}
		return iri
	}
	// --- embedding plan: each node is placed at most once (top level or embedded in one parent)
	placed := map[string]bool{}
	embedDepth := r.Intn(6) // 0: flat
	embedAlways := r.Intn(4) == 0
	if plain {
		embedDepth = 0
	}
	var render func(n *Node, depth int, path map[string]bool) *OObj
	renderValue := func(v Value, depth int, path map[string]bool, render func(n *Node, depth int, path map[string]bool) *OObj) any {
		if v.IsRef() {
			child := g.Node(v.Ref)
			if child != nil && depth < embedDepth && !placed[child.ID] && !path[child.ID] && (embedAlways || r.Intn(2) == 0) {
				mark("embedding")
				placed[child.ID] = true
				return render(child, depth+1, path)
			}
			o := &OObj{}
			o.Set("@id", compactID(v.Ref))
			return o
		}
		// literal: value object or native JSON scalar
		if plain || r.Intn(2) == 0 {
			mark("native-literals")
			return v.Lit
		}
		o := &OObj{}
		o.Set("@value", v.Lit)
		return o
	}
	render = func(n *Node, depth int, path map[string]bool) *OObj {
		path[n.ID] = true
		defer delete(path, n.ID)
		o := &OObj{}
		o.Set("@id", compactID(n.ID))
		if len(n.Types) > 0 {
			if len(n.Types) == 1 && r.Intn(2) == 0 {
				mark("@type-as-string")
				o.Set("@type", compactType(n.Types[0]))
			} else {
				types := n.Types
				if len(types) > 1 && r.Intn(2) == 0 {
					// the classes of a node are a set
					types = Shuffled(r, types)
					mark("type-order")
				}
				ts := make([]any, len(types))
				for i, t := range types {
					ts[i] = compactType(t)
				}
				o.Set("@type", ts)
			}
		}
		for _, p := range n.Props {
			vals := make([]any, 0, len(p.Values)+1)
			pvals := p.Values
			if len(pvals) > 1 && r.Intn(3) == 0 {
				// the values of a property are a set: their order in the document is surface form
				pvals = Shuffled(r, pvals)
				mark("value-order")
			}
			for _, v := range pvals {
				rv := renderValue(v, depth, path, render)
				vals = append(vals, rv)
				if _, embedded := rv.(*OObj); r.Intn(10) == 0 && !(embedded && rv.(*OObj).has("@type")) {
					mark("repeated-value")
					// repeat as a reference / same literal (never a second embedding)
					if v.IsRef() {
						ro := &OObj{}
						ro.Set("@id", compactID(v.Ref))
						vals = append(vals, ro)
					} else {
						vals = append(vals, rv)
					}
				}
			}
			if len(vals) == 1 && r.Intn(2) == 0 {
				mark("single-value-not-array")
				o.Set(compactPred(p.Pred), vals[0])
			} else {
				o.Set(compactPred(p.Pred), vals)
			}
		}
		if r.Intn(2) == 0 {
			mark("key-order")
			o.shuffle(r)
		}
		return o
	}
	order := r.Perm(len(g.Nodes))
	if r.Intn(3) != 0 {
		mark("node-order")
	} else {
		for i := range order {
			order[i] = i
		}
	}
	var top []any
	for _, idx := range order {
		n := g.Nodes[idx]
		if placed[n.ID] {
			continue
		}
		placed[n.ID] = true
		obj := render(n, 0, map[string]bool{})
		top = append(top, obj)
		if r.Intn(12) == 0 {
			mark("repeated-node-object")
			top = append(top, obj)
		}
	}
	for _, e := range reversed {
		o := &OObj{}
		o.Set("@id", compactID(e.obj))
		inner := &OObj{}
		var subj any = func() any { so := &OObj{}; so.Set("@id", compactID(e.subj)); return so }()
		if r.Intn(2) == 0 {
			subj = []any{subj}
		}
		inner.Set(compactPred(e.pred), subj)
		o.Set("@reverse", inner)
		pos := r.Intn(len(top) + 1)
		top = append(top[:pos], append([]any{o}, top[pos:]...)...)
		mark("@reverse-property")
	}
	// --- a node object split in two objects with the same @id (each property stays whole in one of them)
	for k := 0; k < len(top) && r.Intn(3) == 0; k++ {
		idx := r.Intn(len(top))
		o, ok := top[idx].(*OObj)
		if !ok {
			continue
		}
		var propIdx []int
		for i, key := range o.Keys {
			if key != "@id" && key != "@type" {
				propIdx = append(propIdx, i)
			}
		}
		if len(propIdx) < 2 {
			continue
		}
		cut := 1 + r.Intn(len(propIdx)-1)
		a, b := &OObj{}, &OObj{}
		moved := map[int]bool{}
		for _, i := range propIdx[cut:] {
			moved[i] = true
		}
		var idVal any
		for i, key := range o.Keys {
			switch {
			case key == "@id":
				idVal = o.Vals[i]
				a.Set(key, o.Vals[i])
			case key == "@type":
				if r.Intn(2) == 0 {
					a.Set(key, o.Vals[i])
				} else {
					b.Set(key, o.Vals[i])
				}
			case moved[i]:
				b.Set(key, o.Vals[i])
			default:
				a.Set(key, o.Vals[i])
			}
		}
		nb := &OObj{}
		nb.Set("@id", idVal)
		for i, key := range b.Keys {
			nb.Set(key, b.Vals[i])
		}
		top[idx] = a
		pos := r.Intn(len(top) + 1)
		top = append(top[:pos], append([]any{nb}, top[pos:]...)...)
		mark("split-node-object")
	}
	// --- document shape
	var doc any
	hasCtx := len(ctx.Keys) > 0
	var ctxVal any = ctx
	if hasCtx && r.Intn(3) == 0 {
		mark("context-array")
		// split the context in two objects inside an array
		c1, c2 := &OObj{}, &OObj{}
		for i, k := range ctx.Keys {
			if i%2 == 0 {
				c1.Set(k, ctx.Vals[i])
			} else {
				c2.Set(k, ctx.Vals[i])
			}
		}
		ctxVal = []any{c1, c2}
	}
	var graphVal any = top
	if len(top) == 1 && r.Intn(2) == 0 {
		mark("@graph-single-object")
		graphVal = top[0]
	}
	switch {
	case !plain && len(top) >= 2 && len(reversed) == 0 && r.Intn(7) == 0:
		// JSON-LD 1.1: the first node object is the document, the other node objects are its @included block
		first, isObj := top[0].(*OObj)
		if !isObj || first.has("@included") {
			doc = top
			break
		}
		d := &OObj{}
		if hasCtx {
			d.Set("@context", ctxVal)
		}
		for i, k := range first.Keys {
			d.Set(k, first.Vals[i])
		}
		d.Set("@included", append([]any{}, top[1:]...))
		mark("@included-block")
		doc = d
	case plain:
		d := &OObj{}
		d.Set("@graph", graphVal)
		mark("@graph-wrapper")
		doc = d
	case len(top) == 1 && r.Intn(3) == 0:
		// the only top-level node object is the document itself
		mark("root-node-object")
		d := top[0].(*OObj)
		if hasCtx {
			nd := &OObj{}
			nd.Set("@context", ctxVal)
			for i, k := range d.Keys {
				nd.Set(k, d.Vals[i])
			}
			d = nd
		}
		doc = d
	case hasCtx:
		d := &OObj{}
		if r.Intn(2) == 0 {
			d.Set("@context", ctxVal)
			d.Set("@graph", graphVal)
		} else {
			d.Set("@graph", graphVal)
			d.Set("@context", ctxVal)
		}
		mark("@graph-wrapper")
		doc = d
	case r.Intn(2) == 0:
		d := &OObj{}
		d.Set("@graph", graphVal)
		mark("@graph-wrapper")
		doc = d
	default:
		doc = top
	}
	st := &jsonStyle{r: r, colon: pick(r, ":", ": ", " : ")}
	switch r.Intn(3) {
	case 0:
		st.indent, st.nl = "  ", "\n"
		mark("whitespace")
	case 1:
		st.indent, st.nl = "\t", "\r\n"
		mark("whitespace")
	}
	var b strings.Builder
	emitJSON(&b, doc, st, 0)
	if r.Intn(2) == 0 {
		b.WriteString("\n")
	}
	return b.String(), applied
}

func (o *OObj) has(k string) bool {
	for _, kk := range o.Keys {
		if kk == k {
			return true
		}
	}
	return false
}

// ContextByReference renders the graph with the prefix context kept in a file of its own: the document's @context is
// the path of that file (mode "reference"), or a JSON-LD 1.1 context importing it (mode "import"). The same graph.
func (g *Graph) ContextByReference(ctxFile string, mode string) (doc string, ctxText string) {
	cmp := func(iri string) string {
		if strings.HasPrefix(iri, EX) && !strings.ContainsAny(strings.TrimPrefix(iri, EX), "/:") {
			return "ex:" + strings.TrimPrefix(iri, EX)
		}
		return iri
	}
	var nodes []any
	for _, n := range g.Nodes {
		o := &OObj{}
		o.Set("@id", n.ID)
		if len(n.Types) > 0 {
			ts := make([]any, len(n.Types))
			for i, t := range n.Types {
				ts[i] = cmp(t)
			}
			o.Set("@type", ts)
		}
		for _, p := range n.Props {
			vals := make([]any, len(p.Values))
			for i, v := range p.Values {
				if v.IsRef() {
					r := &OObj{}
					r.Set("@id", v.Ref)
					vals[i] = r
				} else {
					l := &OObj{}
					l.Set("@value", v.Lit)
					vals[i] = l
				}
			}
			o.Set(cmp(p.Pred), vals)
		}
		nodes = append(nodes, o)
	}
	d := &OObj{}
	switch mode {
	case "import":
		c := &OObj{}
		c.Set("@import", ctxFile)
		c.Set("unusedterm", EX+"unusedterm")
		d.Set("@context", c)
	default:
		d.Set("@context", ctxFile)
	}
	d.Set("@graph", nodes)
	var b strings.Builder
	emitJSON(&b, d, &jsonStyle{colon: ":"}, 0)
	return b.String(), `{"@context": {"ex": "` + EX + `"}}`
}

// ScopedContexts renders the graph with one @context per "unit": a node whose IRI is the part before '#' of other
// nodes' IRIs carries {"@base": its IRI} and embeds those nodes, written with the relative ids "#fragment". Two units
// then hold node objects that are written alike and are different nodes. ok is false when the graph has no such unit.
func (g *Graph) ScopedContexts() (doc string, ok bool) {
	children := map[string][]*Node{} // unit IRI -> fragment nodes
	isChild := map[string]bool{}
	for _, n := range g.Nodes {
		if i := strings.Index(n.ID, "#"); i > 0 {
			if u := g.Node(n.ID[:i]); u != nil {
				children[u.ID] = append(children[u.ID], n)
				isChild[n.ID] = true
			}
		}
	}
	if len(children) == 0 {
		return "", false
	}
	var render func(n *Node, unit string, embedded map[string]bool) *OObj
	render = func(n *Node, unit string, embedded map[string]bool) *OObj {
		o := &OObj{}
		id := n.ID
		if unit != "" && strings.HasPrefix(id, unit+"#") {
			id = id[len(unit):]
		}
		o.Set("@id", id)
		if len(n.Types) > 0 {
			ts := make([]any, len(n.Types))
			for i, t := range n.Types {
				ts[i] = t
			}
			o.Set("@type", ts)
		}
		for _, p := range n.Props {
			vals := make([]any, 0, len(p.Values))
			for _, v := range p.Values {
				if v.IsRef() {
					if c := g.Node(v.Ref); c != nil && unit != "" && isChild[c.ID] && strings.HasPrefix(c.ID, unit+"#") && !embedded[c.ID] {
						embedded[c.ID] = true
						vals = append(vals, render(c, unit, embedded))
						continue
					}
					r := &OObj{}
					rid := v.Ref
					if unit != "" && strings.HasPrefix(rid, unit+"#") {
						rid = rid[len(unit):]
					}
					r.Set("@id", rid)
					vals = append(vals, r)
				} else {
					l := &OObj{}
					l.Set("@value", v.Lit)
					vals = append(vals, l)
				}
			}
			o.Set(p.Pred, vals)
		}
		return o
	}
	var top []any
	embedded := map[string]bool{}
	for _, n := range g.Nodes {
		if _, isUnit := children[n.ID]; isUnit {
			o := render(n, n.ID, embedded)
			c := &OObj{}
			c.Set("@base", n.ID)
			w := &OObj{}
			w.Set("@context", c)
			for i, k := range o.Keys {
				w.Set(k, o.Vals[i])
			}
			top = append(top, w)
		}
	}
	for _, n := range g.Nodes {
		if _, isUnit := children[n.ID]; isUnit || embedded[n.ID] {
			continue
		}
		top = append(top, render(n, "", embedded))
	}
	var b strings.Builder
	emitJSON(&b, top, &jsonStyle{colon: ":"}, 0)
	return b.String(), true
}

// WithoutNumbers is the graph with its numeric literals dropped (a graph of texts, flags and links only).
func (g *Graph) WithoutNumbers() *Graph {
	h := NewGraph()
	for _, n := range g.Nodes {
		nn := h.AddNode(n.ID, n.Types...)
		for _, p := range n.Props {
			for _, v := range p.Values {
				if !v.IsRef() {
					switch v.Lit.(type) {
					case int64, float64, int:
						continue
					}
				}
				nn.Add(p.Pred, v)
			}
		}
	}
	return h
}

// NormalFormVariant renders the document in the normal form itself - flattened and compacted with an empty context by the
// harness's own JSON-LD processor: one @graph of id-sorted node objects, absolute IRIs, unwrapped scalars - and applies
// at most one perturbation to it: a node object split in two adjacent objects with the same @id, or a node object repeated.
func NormalFormVariant(text string, r *rand.Rand) (string, []string, error) {
	v, ok := ReadableJSON(text)
	if !ok {
		return "", nil, fmt.Errorf("not JSON")
	}
	fl, err := ld.NewJsonLdProcessor().Flatten(v, map[string]any{}, ld.NewJsonLdOptions(""))
	if err != nil {
		return "", nil, err
	}
	applied := []string{"normal-form"}
	if doc, ok := fl.(map[string]any); ok {
		if nodes, ok := doc["@graph"].([]any); ok && len(nodes) > 0 {
			var cands []int
			for i, n := range nodes {
				if m, ok := n.(map[string]any); ok && len(m) >= 3 {
					cands = append(cands, i)
				}
			}
			switch k := r.Intn(4); {
			case k <= 1 && len(cands) > 0:
				i := cands[r.Intn(len(cands))]
				m := nodes[i].(map[string]any)
				keys := SortedKeys(m)
				var rest []string
				for _, key := range keys {
					if key != "@id" {
						rest = append(rest, key)
					}
				}
				rest = Shuffled(r, rest)
				cut := 1 + r.Intn(len(rest)-1)
				a, b := map[string]any{"@id": m["@id"]}, map[string]any{"@id": m["@id"]}
				for j, key := range rest {
					if j < cut {
						a[key] = m[key]
					} else {
						b[key] = m[key]
					}
				}
				out := append([]any{}, nodes[:i]...)
				out = append(out, a, b)
				out = append(out, nodes[i+1:]...)
				doc["@graph"] = out
				applied = append(applied, "split-node-object")
			case k == 2:
				i := r.Intn(len(nodes))
				out := append([]any{}, nodes[:i+1]...)
				out = append(out, nodes[i:]...)
				doc["@graph"] = out
				applied = append(applied, "repeated-node-object")
			}
		}
	}
	b, err := json.Marshal(fl)
	return string(b), applied, err
}
