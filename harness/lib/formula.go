package lib

import (
	"fmt"
	"math/rand"
	"strings"
)

// ---- constraint formulas with a classical reference evaluator ----

type F interface{ fNode() }

type FAtom struct{ I int }  // index into World.Atoms
type FQuant struct{ Q int } // index into World.Quants
type FNot struct{ X F }
type FAnd struct{ Xs []F }
type FOr struct{ Xs []F }
type FIf struct{ A, B F }
type FIfElse struct{ A, B, C F }

func (FAtom) fNode()   {}
func (FQuant) fNode()  {}
func (FNot) fNode()    {}
func (FAnd) fNode()    {}
func (FOr) fNode()     {}
func (FIf) fNode()     {}
func (FIfElse) fNode() {}

type Quant struct {
	Kind    string // nested | atLeast | atMost
	N       int
	Shape   string // pred | seq | alt | inv
	Path    Path
	PathStr string
	Inner   F
	// leaves of Inner (atoms / quants evaluated on the reached nodes)
	InnerAtoms  []int
	InnerQuants []int
	Twin        int // >=0: shares path, children and inner leaves with that quantifier (different kind / count / body)
}

// World: one formula family with its atoms, quantifiers, graph and truth table.
type World struct {
	Atoms  []AtomKind // atom i is realised on property ex.p<Base+i>
	Base   int
	Quants []*Quant
	G      *Graph
	Truth  map[string]map[int]bool // node -> atom -> truth by construction
	Pfx    map[string]string
	nextID int
	R      *rand.Rand
	// Override forces the truth of some atoms (used to fingerprint a known finding: "what would be reported if
	// atom k behaved the way the listed defect makes it behave")
	Override map[int]bool
}

func (w *World) AtomProp(i int) int { return w.Base + i }

func (w *World) newNode(class string) *Node {
	w.nextID++
	return w.G.AddNode(fmt.Sprintf("%sn%d_%d", EX, w.Base, w.nextID), EX+class)
}

// Eval is the reference semantics of the statement of C01.
func (w *World) Eval(f F, node string) bool {
	switch v := f.(type) {
	case FAtom:
		if forced, ok := w.Override[v.I]; ok {
			return forced
		}
		return w.Truth[node][v.I]
	case FQuant:
		q := w.Quants[v.Q]
		reached := NodesOf(w.G, Denote(w.G, q.Path, node, w.Pfx))
		sat := 0
		for _, c := range reached {
			if w.Eval(q.Inner, c) {
				sat++
			}
		}
		switch q.Kind {
		case "nested":
			return sat == len(reached)
		case "atLeast":
			return sat >= q.N
		case "atMost":
			return sat <= q.N
		}
		panic("quant kind")
	case FNot:
		return !w.Eval(v.X, node)
	case FAnd:
		for _, x := range v.Xs {
			if !w.Eval(x, node) {
				return false
			}
		}
		return true
	case FOr:
		for _, x := range v.Xs {
			if w.Eval(x, node) {
				return true
			}
		}
		return false
	case FIf:
		return !w.Eval(v.A, node) || w.Eval(v.B, node)
	case FIfElse:
		if w.Eval(v.A, node) {
			return w.Eval(v.B, node)
		}
		return w.Eval(v.C, node)
	}
	panic(fmt.Sprintf("unknown formula %T", f))
}

// Leaves collects the atoms and quantifiers occurring in f (not descending into quantifier bodies).
func Leaves(f F, atoms map[int]bool, quants map[int]bool) {
	switch v := f.(type) {
	case FAtom:
		atoms[v.I] = true
	case FQuant:
		quants[v.Q] = true
	case FNot:
		Leaves(v.X, atoms, quants)
	case FAnd:
		for _, x := range v.Xs {
			Leaves(x, atoms, quants)
		}
	case FOr:
		for _, x := range v.Xs {
			Leaves(x, atoms, quants)
		}
	case FIf:
		Leaves(v.A, atoms, quants)
		Leaves(v.B, atoms, quants)
	case FIfElse:
		Leaves(v.A, atoms, quants)
		Leaves(v.B, atoms, quants)
		Leaves(v.C, atoms, quants)
	}
}

// ToExpr turns the formula into the profile language. merge: conjunctions of plain leaves may be written as
// one propertyConstraints mapping with several entries (the implicit and).
func (w *World) ToExpr(f F, r *rand.Rand) Expr {
	switch v := f.(type) {
	case FAtom:
		return PC1(PName(w.AtomProp(v.I)), w.Atoms[v.I].Constraint(w.AtomProp(v.I))...)
	case FQuant:
		q := w.Quants[v.Q]
		inner := w.ToExpr(q.Inner, r)
		switch q.Kind {
		case "nested":
			return PC1(q.PathStr, CNested(inner))
		case "atLeast":
			return PC1(q.PathStr, CAtLeast(q.N, inner))
		default:
			return PC1(q.PathStr, CAtMost(q.N, inner))
		}
	case FNot:
		return NotE{w.ToExpr(v.X, r)}
	case FAnd:
		// implicit-and spelling: operands that are plain leaves can share one propertyConstraints mapping;
		// leaves over the same path share one constraint mapping as long as their keys differ
		if r != nil && r.Intn(2) == 0 && len(v.Xs) > 1 {
			pc := PC{}
			var rest []Expr
			for _, x := range v.Xs {
				e := w.ToExpr(x, r)
				leaf := false
				switch x.(type) {
				case FAtom, FQuant:
					leaf = true
				}
				epc, isPC := e.(PC)
				if !leaf || !isPC || len(epc.Entries) != 1 || !mergeEntry(&pc, epc.Entries[0]) {
					rest = append(rest, e)
				}
			}
			if len(pc.Entries) > 0 {
				if len(rest) == 0 {
					return pc
				}
				items := append([]Expr{pc}, rest...)
				return AndE{Items: items}
			}
		}
		out := AndE{}
		for _, x := range v.Xs {
			out.Items = append(out.Items, w.ToExpr(x, r))
		}
		return out
	case FOr:
		out := OrE{}
		for _, x := range v.Xs {
			out.Items = append(out.Items, w.ToExpr(x, r))
		}
		return out
	case FIf:
		return IfE{If: w.ToExpr(v.A, r), Then: w.ToExpr(v.B, r)}
	case FIfElse:
		return IfE{If: w.ToExpr(v.A, r), Then: w.ToExpr(v.B, r), Else: w.ToExpr(v.C, r)}
	}
	panic("unknown formula")
}

func FString(f F) string {
	switch v := f.(type) {
	case FAtom:
		return fmt.Sprintf("A%d", v.I)
	case FQuant:
		return fmt.Sprintf("Q%d", v.Q)
	case FNot:
		return "not(" + FString(v.X) + ")"
	case FAnd:
		return "and(" + joinF(v.Xs) + ")"
	case FOr:
		return "or(" + joinF(v.Xs) + ")"
	case FIf:
		return "if(" + FString(v.A) + "," + FString(v.B) + ")"
	case FIfElse:
		return "ifelse(" + FString(v.A) + "," + FString(v.B) + "," + FString(v.C) + ")"
	}
	return "?"
}

func joinF(xs []F) string {
	parts := make([]string, len(xs))
	for i, x := range xs {
		parts[i] = FString(x)
	}
	return strings.Join(parts, ",")
}

// ---- random formulas ----

type FGen struct {
	R        *rand.Rand
	NAtoms   int
	NQuants  int
	MaxDepth int
	Cover    func(conn string, negParity int, parent string) // coverage hook
}

func (g *FGen) leaf() F {
	total := g.NAtoms + g.NQuants
	i := g.R.Intn(total)
	if i < g.NAtoms {
		return FAtom{i}
	}
	return FQuant{i - g.NAtoms}
}

func (g *FGen) Gen(depth int) F {
	if depth >= g.MaxDepth || g.R.Intn(5) == 0 {
		return g.leaf()
	}
	switch g.R.Intn(6) {
	case 0:
		return FNot{g.Gen(depth + 1)}
	case 1:
		n := 1 + g.R.Intn(4)
		xs := make([]F, n)
		for i := range xs {
			xs[i] = g.Gen(depth + 1)
		}
		return FAnd{xs}
	case 2:
		n := 1 + g.R.Intn(4)
		xs := make([]F, n)
		for i := range xs {
			xs[i] = g.Gen(depth + 1)
		}
		return FOr{xs}
	case 3:
		return FIf{g.Gen(depth + 1), g.Gen(depth + 1)}
	case 4:
		return FIfElse{g.Gen(depth + 1), g.Gen(depth + 1), g.Gen(depth + 1)}
	default:
		return g.leaf()
	}
}

// CoverFormula walks f and reports (connective, parity of `not`s above, parent connective).
func CoverFormula(f F, parity int, parent string, cover func(conn string, parity int, parent string)) {
	switch v := f.(type) {
	case FAtom:
		cover("atom", parity, parent)
	case FQuant:
		cover("quant", parity, parent)
	case FNot:
		cover("not", parity, parent)
		CoverFormula(v.X, 1-parity, "not", cover)
	case FAnd:
		cover("and", parity, parent)
		for _, x := range v.Xs {
			CoverFormula(x, parity, "and", cover)
		}
	case FOr:
		cover("or", parity, parent)
		for _, x := range v.Xs {
			CoverFormula(x, parity, "or", cover)
		}
	case FIf:
		cover("if", parity, parent)
		CoverFormula(v.A, parity, "if-cond", cover)
		CoverFormula(v.B, parity, "then", cover)
	case FIfElse:
		cover("ifelse", parity, parent)
		CoverFormula(v.A, parity, "if-cond", cover)
		CoverFormula(v.B, parity, "then", cover)
		CoverFormula(v.C, parity, "else", cover)
	}
}

// ---- meaning-preserving rewrites (spelling invariance) ----

func Rewrite(f F, r *rand.Rand) F {
	switch v := f.(type) {
	case FAtom, FQuant:
		switch r.Intn(8) {
		case 0:
			return FNot{FNot{f}}
		case 1:
			return FAnd{[]F{f}}
		case 2:
			return FOr{[]F{f}}
		}
		return f
	case FNot:
		x := Rewrite(v.X, r)
		// De Morgan
		switch in := x.(type) {
		case FAnd:
			if r.Intn(2) == 0 {
				ys := make([]F, len(in.Xs))
				for i, y := range in.Xs {
					ys[i] = FNot{y}
				}
				return FOr{ys}
			}
		case FOr:
			if r.Intn(2) == 0 {
				ys := make([]F, len(in.Xs))
				for i, y := range in.Xs {
					ys[i] = FNot{y}
				}
				return FAnd{ys}
			}
		case FNot:
			if r.Intn(2) == 0 {
				return in.X
			}
		}
		return FNot{x}
	case FAnd:
		xs := make([]F, 0, len(v.Xs))
		for _, x := range Shuffled(r, v.Xs) {
			y := Rewrite(x, r)
			if in, ok := y.(FAnd); ok && r.Intn(2) == 0 {
				xs = append(xs, in.Xs...) // flatten
			} else {
				xs = append(xs, y)
			}
		}
		if len(xs) > 2 && r.Intn(3) == 0 { // un-flatten
			k := 1 + r.Intn(len(xs)-1)
			return FAnd{[]F{FAnd{xs[:k]}, FAnd{xs[k:]}}}
		}
		return FAnd{xs}
	case FOr:
		xs := make([]F, 0, len(v.Xs))
		for _, x := range Shuffled(r, v.Xs) {
			y := Rewrite(x, r)
			if in, ok := y.(FOr); ok && r.Intn(2) == 0 {
				xs = append(xs, in.Xs...)
			} else {
				xs = append(xs, y)
			}
		}
		if len(xs) > 2 && r.Intn(3) == 0 {
			k := 1 + r.Intn(len(xs)-1)
			return FOr{[]F{FOr{xs[:k]}, FOr{xs[k:]}}}
		}
		return FOr{xs}
	case FIf:
		a, b := Rewrite(v.A, r), Rewrite(v.B, r)
		if r.Intn(2) == 0 {
			return FOr{[]F{FNot{a}, b}}
		}
		return FIf{a, b}
	case FIfElse:
		a, b, c := Rewrite(v.A, r), Rewrite(v.B, r), Rewrite(v.C, r)
		switch r.Intn(3) {
		case 0:
			return FAnd{[]F{FOr{[]F{FNot{a}, b}}, FOr{[]F{a, c}}}}
		case 1:
			return FAnd{[]F{FIf{a, b}, FIf{FNot{a}, c}}}
		}
		return FIfElse{a, b, c}
	}
	return f
}

// ---- size of the translation (the translator expands or-of-ands into a cross product of branches) ----

// Cost estimates (number of branches, total number of leaf occurrences over all branches) of the
// disjunctive expansion the translator performs, so that generated formulas stay within a stated bound.
func (w *World) Cost(f F, neg bool) (branches, total float64) {
	sum := func(xs []F, n bool) (float64, float64) {
		var b, t float64
		for _, x := range xs {
			xb, xt := w.Cost(x, n)
			b += xb
			t += xt
		}
		return b, t
	}
	prod := func(xs []F, n bool) (float64, float64) {
		b, t := 1.0, 0.0
		for _, x := range xs {
			xb, xt := w.Cost(x, n)
			// every combination: lengths add up
			t = t*xb + xt*b
			b *= xb
		}
		return b, t
	}
	switch v := f.(type) {
	case FAtom:
		k := float64(len(w.Atoms[v.I].Constraint(0))) // several keys in one mapping are an implicit and
		if neg {
			return 1, k
		}
		return k, k
	case FQuant:
		ib, it := w.Cost(w.Quants[v.Q].Inner, false)
		return 1, 1 + ib + it
	case FNot:
		return w.Cost(v.X, !neg)
	case FAnd:
		if neg {
			return prod(v.Xs, true)
		}
		return sum(v.Xs, false)
	case FOr:
		if neg {
			return sum(v.Xs, true)
		}
		return prod(v.Xs, false)
	case FIf:
		return w.Cost(FOr{[]F{FNot{v.A}, v.B}}, neg)
	case FIfElse:
		return w.Cost(FAnd{[]F{FOr{[]F{FNot{v.A}, v.B}}, FOr{[]F{v.A, v.C}}}}, neg)
	}
	return 1, 1
}

// mergeEntry adds the entry to the mapping; entries over the same path are merged into one constraint
// mapping when no constraint key would be repeated. Returns false if it cannot be merged.
func mergeEntry(pc *PC, e PCEntry) bool {
	for i := range pc.Entries {
		if pc.Entries[i].Path == e.Path {
			for _, c := range e.Constraints {
				for _, d := range pc.Entries[i].Constraints {
					if c.Key == d.Key {
						return false
					}
				}
			}
			pc.Entries[i].Constraints = append(pc.Entries[i].Constraints, e.Constraints...)
			return true
		}
	}
	pc.Entries = append(pc.Entries, PCEntry{Path: e.Path, Constraints: append([]Constraint{}, e.Constraints...)})
	return true
}
