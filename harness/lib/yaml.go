package lib

import (
	"fmt"
	"strings"
	"unicode"
)

// ---- a small YAML document model and printer (ours; the code under test parses with yaml.v3) ----

type YNode interface{ yNode() }

// YMap is an ordered mapping.
type YMap struct {
	Keys []YScalar
	Vals []YNode
}

type YSeq struct{ Items []YNode }

type YStyle int

const (
	YAuto   YStyle = iota // plain when safe, else double quoted
	YPlain                // forced plain (caller guarantees safety)
	YSingle               // 'single quoted'
	YDouble               // "double quoted"
)

// YScalar: Text is the *value*; Kind tells how YAML must type it.
type YScalar struct {
	Text  string
	IsStr bool // the scalar must be read back as a string (quote if it would resolve to int/bool/null/float)
	Style YStyle
}

func (*YMap) yNode()   {}
func (*YSeq) yNode()   {}
func (YScalar) yNode() {}

func Str(s string) YScalar       { return YScalar{Text: s, IsStr: true} }
func Int(i int) YScalar          { return YScalar{Text: fmt.Sprintf("%d", i)} }
func RawScalar(s string) YScalar { return YScalar{Text: s} }
func Bool(b bool) YScalar        { return YScalar{Text: fmt.Sprintf("%t", b)} }

func NewYMap() *YMap { return &YMap{} }

func (m *YMap) Set(k string, v YNode) *YMap {
	m.Keys = append(m.Keys, Str(k))
	m.Vals = append(m.Vals, v)
	return m
}

func (m *YMap) Get(k string) YNode {
	for i, kk := range m.Keys {
		if kk.Text == k {
			return m.Vals[i]
		}
	}
	return nil
}

func YSeqOf(items ...YNode) *YSeq { return &YSeq{Items: items} }

func StrSeq(items ...string) *YSeq {
	s := &YSeq{}
	for _, it := range items {
		s.Items = append(s.Items, Str(it))
	}
	return s
}

// YPrintOpts: surface choices that never change the document's meaning.
type YPrintOpts struct {
	Indent     int                           // spaces per level (>=2)
	Flow       func(depth int, n YNode) bool // print this collection in flow style
	Style      func(s YScalar) YStyle        // quoting style for string scalars that are safe in any style
	Comment    func() string                 // "" or a comment text to put on its own line
	BlankLine  func() bool
	TrailSpace func() bool
	DocStart   bool
	SeqIndent  bool // indent sequences under their key
}

func plainSafe(s string) bool {
	if s == "" {
		return false
	}
	// conservative: letters, digits and a few punctuation characters, not starting with an indicator
	for i, r := range s {
		switch {
		case unicode.IsLetter(r) && r < 128, unicode.IsDigit(r) && r < 128:
		case r == '.' || r == '_' || r == '-' || r == '/' || r == '^' || r == '|' || r == '(' || r == ')' || r == '@' || r == '#' || r == ':' || r == ' ' || r == '\\' || r == '+' || r == '*' || r == '$' || r == '\'' || r == ',':
			if i == 0 && (r == '-' || r == '#' || r == ':' || r == ' ' || r == '@' || r == '|' || r == '*' || r == '\'' || r == ',' || r == '.') {
				return false
			}
		default:
			return false
		}
	}
	if strings.HasSuffix(s, " ") || strings.HasSuffix(s, ":") || strings.Contains(s, ": ") || strings.Contains(s, " #") || strings.Contains(s, ",") {
		return false
	}
	return !resolvesNonString(s)
}

// resolvesNonString: would yaml 1.2 core schema (as yaml.v3 does) read this plain scalar as something other than a string?
func resolvesNonString(s string) bool {
	switch strings.ToLower(s) {
	case "true", "false", "null", "~", "yes", "no", "on", "off", "y", "n", ".inf", "-.inf", "+.inf", ".nan", "":
		return true
	}
	// numbers
	digits := 0
	other := false
	for i, r := range s {
		switch {
		case r >= '0' && r <= '9':
			digits++
		case r == '+' || r == '-':
			if i != 0 && !strings.ContainsAny(string(s[i-1]), "eE") {
				other = true
			}
		case r == '.' || r == 'e' || r == 'E' || r == '_' || r == 'x' || r == 'o' || r == 'b':
		case r >= 'a' && r <= 'f' || r >= 'A' && r <= 'F':
		case r == ':': // sexagesimal in YAML 1.1
		default:
			other = true
		}
	}
	return digits > 0 && !other
}

func doubleQuote(s string) string {
	var b strings.Builder
	b.WriteByte('"')
	for _, r := range s {
		switch r {
		case '"':
			b.WriteString(`\"`)
		case '\\':
			b.WriteString(`\\`)
		case '\n':
			b.WriteString(`\n`)
		case '\t':
			b.WriteString(`\t`)
		case '\r':
			b.WriteString(`\r`)
		default:
			if r < 0x20 || r == 0x7f || r == 0x85 || r == 0xa0 || r == 0x2028 || r == 0x2029 || r == 0xfeff {
				if r > 0xff {
					b.WriteString(fmt.Sprintf(`\u%04x`, r))
				} else {
					b.WriteString(fmt.Sprintf(`\x%02x`, r))
				}
			} else if r > 0xffff {
				b.WriteString(fmt.Sprintf(`\U%08x`, r))
			} else {
				b.WriteRune(r)
			}
		}
	}
	b.WriteByte('"')
	return b.String()
}

func singleQuotable(s string) bool {
	for _, r := range s {
		if r < 0x20 || r == 0x7f || r == 0x85 || r == 0x2028 || r == 0x2029 || r == 0xfeff {
			return false
		}
	}
	return !strings.HasPrefix(s, " ") && !strings.HasSuffix(s, " ")
}

func renderScalar(s YScalar, o *YPrintOpts) string {
	if !s.IsStr {
		return s.Text // int / bool / float literal: must stay plain
	}
	style := s.Style
	if style == YAuto && o != nil && o.Style != nil {
		style = o.Style(s)
	}
	switch style {
	case YPlain:
		if plainSafe(s.Text) {
			return s.Text
		}
	case YSingle:
		if singleQuotable(s.Text) {
			return "'" + strings.ReplaceAll(s.Text, "'", "''") + "'"
		}
	case YDouble:
		return doubleQuote(s.Text)
	}
	if plainSafe(s.Text) {
		return s.Text
	}
	return doubleQuote(s.Text)
}

// PrintYAML renders the document.
func PrintYAML(n YNode, o *YPrintOpts) string {
	if o == nil {
		o = &YPrintOpts{Indent: 2}
	}
	if o.Indent < 2 {
		o.Indent = 2
	}
	var b strings.Builder
	if o.DocStart {
		b.WriteString("---\n")
	}
	printBlock(&b, n, 0, o)
	return b.String()
}

func flowOf(n YNode, o *YPrintOpts) string {
	switch v := n.(type) {
	case YScalar:
		s := renderScalar(v, o)
		if v.IsStr && !strings.HasPrefix(s, "\"") && !strings.HasPrefix(s, "'") && strings.ContainsAny(s, "[]{},") {
			return doubleQuote(v.Text)
		}
		return s
	case *YSeq:
		parts := make([]string, len(v.Items))
		for i, it := range v.Items {
			parts[i] = flowOf(it, o)
		}
		return "[" + strings.Join(parts, ", ") + "]"
	case *YMap:
		parts := make([]string, len(v.Keys))
		for i, k := range v.Keys {
			parts[i] = flowKey(k, o) + ": " + flowOf(v.Vals[i], o)
		}
		return "{" + strings.Join(parts, ", ") + "}"
	}
	return ""
}

func flowKey(k YScalar, o *YPrintOpts) string {
	s := renderScalar(k, o)
	if !strings.HasPrefix(s, "\"") && !strings.HasPrefix(s, "'") && strings.ContainsAny(s, "[]{},:") {
		return doubleQuote(k.Text)
	}
	return s
}

func isEmptyColl(n YNode) bool {
	switch v := n.(type) {
	case *YSeq:
		return len(v.Items) == 0
	case *YMap:
		return len(v.Keys) == 0
	}
	return false
}

func printBlock(b *strings.Builder, n YNode, level int, o *YPrintOpts) {
	pad := strings.Repeat(" ", level*o.Indent)
	eol := func() {
		if o.TrailSpace != nil && o.TrailSpace() {
			b.WriteString("  ")
		}
		b.WriteByte('\n')
		if o.BlankLine != nil && o.BlankLine() {
			b.WriteByte('\n')
		}
	}
	comment := func() {
		if o.Comment != nil {
			if c := o.Comment(); c != "" {
				b.WriteString(pad + "# " + c + "\n")
			}
		}
	}
	useFlow := func(x YNode) bool {
		if isEmptyColl(x) {
			return true
		}
		return o.Flow != nil && o.Flow(level, x)
	}
	switch v := n.(type) {
	case YScalar:
		b.WriteString(pad + renderScalar(v, o))
		eol()
	case *YMap:
		for i, k := range v.Keys {
			comment()
			val := v.Vals[i]
			ks := renderScalar(k, o)
			if strings.ContainsAny(ks, "\n") {
				ks = doubleQuote(k.Text)
			}
			switch vv := val.(type) {
			case YScalar:
				b.WriteString(pad + ks + ": " + renderScalar(vv, o))
				eol()
			default:
				if useFlow(val) {
					b.WriteString(pad + ks + ": " + flowOf(val, o))
					eol()
				} else {
					b.WriteString(pad + ks + ":")
					eol()
					printBlock(b, val, level+1, o)
				}
			}
		}
	case *YSeq:
		for _, it := range v.Items {
			comment()
			switch vv := it.(type) {
			case YScalar:
				b.WriteString(pad + "- " + renderScalar(vv, o))
				eol()
			default:
				if useFlow(it) {
					b.WriteString(pad + "- " + flowOf(it, o))
					eol()
				} else {
					// block collection as sequence item: print "-" then the collection one level deeper
					var inner strings.Builder
					printBlock(&inner, it, level+1, o)
					s := inner.String()
					// replace the first indentation by "- " aligned
					ipad := strings.Repeat(" ", (level+1)*o.Indent)
					if strings.HasPrefix(s, ipad) && !strings.HasPrefix(strings.TrimLeft(s, " "), "#") && o.Indent >= 2 {
						s = pad + "-" + strings.Repeat(" ", o.Indent-1) + s[len(ipad):]
						b.WriteString(s)
					} else {
						b.WriteString(pad + "-\n" + s)
					}
				}
			}
		}
	}
}
