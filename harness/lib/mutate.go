package lib

import (
	"bytes"
	"encoding/json"
	"fmt"
	"math/rand"
	"strings"

	"gopkg.in/yaml.v3"
)

// ---- structure-aware and byte-level mutators (hostile inputs for C17) ----

func allYamlNodes(n *yaml.Node, acc *[]*yaml.Node) {
	*acc = append(*acc, n)
	for _, c := range n.Content {
		allYamlNodes(c, acc)
	}
}

func scalarNode(tag, val string) *yaml.Node {
	return &yaml.Node{Kind: yaml.ScalarNode, Tag: tag, Value: val}
}

var hostilePaths = []string{"", " ", "ex.a /", "/ ex.a", "ex.a | | ex.b", "(ex.a", "ex.a)", "ex.", ".a", "ex", "nope.a", "ex.a ^ ^", "@type / @type", "ex.a / (ex.b", "((((ex.a))))", "ex.a/ex.b", "ex.a\\/b", "ex.a*", "ex.a\"", "ex.é", "ex.a / @id", "@", "@typ", "()", "ex.a || ex.b", strings.Repeat("(", 500) + "ex.a" + strings.Repeat(")", 500), strings.Repeat("ex.a / ", 300) + "ex.a", "ex.a\x00"}

// MutateYAML applies k random structure-level mutations to a YAML document and renders it again.
func MutateYAML(r *rand.Rand, text string, k int) (string, string, bool) {
	var doc yaml.Node
	if err := yaml.Unmarshal([]byte(text), &doc); err != nil || len(doc.Content) == 0 {
		return "", "", false
	}
	var applied []string
	for i := 0; i < k; i++ {
		var nodes []*yaml.Node
		allYamlNodes(doc.Content[0], &nodes)
		n := nodes[r.Intn(len(nodes))]
		op := r.Intn(16)
		switch op {
		case 0: // delete a key/value pair of a mapping
			if n.Kind == yaml.MappingNode && len(n.Content) >= 2 {
				j := r.Intn(len(n.Content)/2) * 2
				applied = append(applied, "delete-key:"+n.Content[j].Value)
				n.Content = append(n.Content[:j], n.Content[j+2:]...)
			}
		case 1: // duplicate a pair
			if n.Kind == yaml.MappingNode && len(n.Content) >= 2 {
				j := r.Intn(len(n.Content)/2) * 2
				applied = append(applied, "duplicate-key:"+n.Content[j].Value)
				n.Content = append(n.Content, n.Content[j], n.Content[j+1])
			}
		case 2: // scalar -> mapping
			if n.Kind == yaml.ScalarNode {
				applied = append(applied, "scalar-to-map")
				*n = yaml.Node{Kind: yaml.MappingNode, Tag: "!!map", Content: []*yaml.Node{scalarNode("!!str", "k"), scalarNode("!!str", n.Value)}}
			}
		case 3: // scalar -> sequence
			if n.Kind == yaml.ScalarNode {
				applied = append(applied, "scalar-to-seq")
				*n = yaml.Node{Kind: yaml.SequenceNode, Tag: "!!seq", Content: []*yaml.Node{scalarNode(n.Tag, n.Value)}}
			}
		case 4: // anything -> null
			applied = append(applied, "to-null")
			*n = *scalarNode("!!null", "null")
		case 5: // collection -> scalar
			if n.Kind != yaml.ScalarNode {
				applied = append(applied, "collection-to-scalar")
				*n = *scalarNode("!!str", "scalar")
			}
		case 6: // wrong scalar type
			if n.Kind == yaml.ScalarNode {
				applied = append(applied, "wrong-scalar-type")
				switch r.Intn(5) {
				case 0:
					*n = *scalarNode("!!int", "7")
				case 1:
					*n = *scalarNode("!!bool", "true")
				case 2:
					*n = *scalarNode("!!float", "1.5e300")
				case 3:
					*n = *scalarNode("!!str", "")
				case 4:
					*n = *scalarNode("!!int", "-99999999999999999999")
				}
			}
		case 7: // hostile path / prefix as key or value
			if n.Kind == yaml.ScalarNode {
				applied = append(applied, "hostile-path")
				n.Tag, n.Value = "!!str", hostilePaths[r.Intn(len(hostilePaths))]
			}
		case 8: // deep nesting
			applied = append(applied, "deep-nesting")
			depth := pick(r, 5, 50, 400)
			cur := &yaml.Node{Kind: n.Kind, Tag: n.Tag, Value: n.Value, Content: n.Content}
			for d := 0; d < depth; d++ {
				if r.Intn(2) == 0 {
					cur = &yaml.Node{Kind: yaml.SequenceNode, Tag: "!!seq", Content: []*yaml.Node{cur}}
				} else {
					cur = &yaml.Node{Kind: yaml.MappingNode, Tag: "!!map", Content: []*yaml.Node{scalarNode("!!str", pick(r, "not", "and", "nested", "propertyConstraints", "x")), cur}}
				}
			}
			*n = *cur
		case 9: // rename a key to another language key
			if n.Kind == yaml.MappingNode && len(n.Content) >= 2 {
				j := r.Intn(len(n.Content)/2) * 2
				applied = append(applied, "rename-key")
				n.Content[j].Value = pick(r, "propertyConstraints", "and", "or", "not", "if", "then", "else", "nested", "atLeast", "atMost", "count", "validation", "rego", "regoModule", "code", "message", "targetClass", "in", "pattern", "minCount", "datatype", "lessThanProperty", "violation", "validations", "prefixes", "profile", "")
			}
		case 10: // anchor + alias
			if len(nodes) > 2 {
				applied = append(applied, "alias")
				target := nodes[r.Intn(len(nodes))]
				if target != n && target.Kind != yaml.AliasNode {
					target.Anchor = "a1"
					*n = yaml.Node{Kind: yaml.AliasNode, Alias: target, Value: "a1"}
				}
			}
		case 11: // empty collection
			if n.Kind == yaml.MappingNode || n.Kind == yaml.SequenceNode {
				applied = append(applied, "empty-collection")
				n.Content = nil
			}
		case 12: // sequence of wrong things
			if n.Kind == yaml.SequenceNode {
				applied = append(applied, "seq-of-wrong-things")
				n.Content = []*yaml.Node{scalarNode("!!int", "1"), {Kind: yaml.SequenceNode, Tag: "!!seq"}, {Kind: yaml.MappingNode, Tag: "!!map"}, scalarNode("!!null", "null")}
			}
		case 13: // swap key and value
			if n.Kind == yaml.MappingNode && len(n.Content) >= 2 {
				j := r.Intn(len(n.Content)/2) * 2
				if n.Content[j+1].Kind == yaml.ScalarNode {
					applied = append(applied, "swap-key-value")
					n.Content[j], n.Content[j+1] = n.Content[j+1], n.Content[j]
				}
			}
		case 14: // huge integer argument
			if n.Kind == yaml.ScalarNode && n.Tag == "!!int" {
				applied = append(applied, "huge-int")
				n.Value = pick(r, "9223372036854775807", "-1", "0", "2147483648", "99999999999999999999999")
			}
		case 15: // non-string key
			if n.Kind == yaml.MappingNode && len(n.Content) >= 2 {
				j := r.Intn(len(n.Content)/2) * 2
				applied = append(applied, "non-string-key")
				n.Content[j] = pick(r, scalarNode("!!int", "5"), scalarNode("!!null", "~"), &yaml.Node{Kind: yaml.SequenceNode, Tag: "!!seq", Content: []*yaml.Node{scalarNode("!!str", "k")}})
			}
		}
	}
	out, err := yaml.Marshal(&doc)
	if err != nil {
		return "", "", false
	}
	return string(out), strings.Join(applied, ","), len(applied) > 0
}

// SpecialProfiles are hand-written degenerate documents.
func SpecialProfiles() []string {
	deep := strings.Repeat("[", 10000) + strings.Repeat("]", 10000)
	deepMap := strings.Repeat("{a: ", 3000) + "1" + strings.Repeat("}", 3000)
	return []string{"", "\n", "# only a comment\n", "---\n", "---\n...\n", "--- a\n--- b\n", "profile:", "profile: x", "profile: x\nvalidations:", "profile: x\nvalidations: {}\n", "profile: x\nvalidations: []\n",
		"profile: x\nviolation: v\nvalidations: {}\n", "profile: x\nviolation: {a: b}\nvalidations: {v: {}}\n", "profile: x\nviolation: [v]\nvalidations: {v: 5}\n", "profile: x\nviolation: [v]\nvalidations: {v: []}\n",
		"profile: x\nviolation: [v]\nvalidations: {v: {targetClass: 5}}\n", "profile: x\nviolation: [v]\nvalidations: {v: {targetClass: ex.T}}\n", "profile: x\nviolation: [v]\nvalidations:\n  v:\n    targetClass: nope.T\n    propertyConstraints:\n      nope.a:\n        minCount: 1\n",
		"profile: [x]\nvalidations: {}\n", "profile: {a: b}\nvalidations: {}\n", "profile: 5\nvalidations: {}\n", "- a\n- b\n", "5", "null", "~", "true", "\"just a string\"", "a: [", "a: b: c", "\tprofile: x", "profile: x\n\tvalidations: {}", "a: &x [*x]", "a: &a\n  b: *a\n",
		"profile: x\nprefixes: 5\nvalidations: {}\n", "profile: x\nprefixes: {ex: 5}\nvalidations: {}\n", "profile: x\nprefixes: {ex: [a]}\nvalidations: {}\n", "profile: x\nrego_extensions: 5\nvalidations: {}\n", "profile: x\nrego_extensions: \"{{{\"\nvalidations: {}\n",
		"profile: x\nviolation: [v]\nvalidations:\n  v:\n    targetClass: ex.T\n    propertyConstraints:\n      ex.a:\n        atLeast: 5\n",
		"profile: x\nprefixes: {ex: \"http://ex.org/\"}\nviolation: [v]\nvalidations:\n  v:\n    targetClass: ex.T\n    propertyConstraints:\n      ex.a:\n        atLeast: {count: x, validation: {}}\n",
		"profile: x\nprefixes: {ex: \"http://ex.org/\"}\nviolation: [v]\nvalidations:\n  v:\n    targetClass: ex.T\n    propertyConstraints:\n      ex.a:\n        nested: {propertyConstraints: {ex.b: {nested: {propertyConstraints: {}}}}}\n",
		"profile: x\nprefixes: {ex: \"http://ex.org/\"}\nviolation: [v]\nvalidations:\n  v:\n    targetClass: ex.T\n    and: []\n",
		"profile: x\nprefixes: {ex: \"http://ex.org/\"}\nviolation: [v]\nvalidations:\n  v:\n    targetClass: ex.T\n    or: []\n",
		"profile: x\nprefixes: {ex: \"http://ex.org/\"}\nviolation: [v]\nvalidations:\n  v:\n    targetClass: ex.T\n    not: {and: []}\n",
		"profile: x\nprefixes: {ex: \"http://ex.org/\"}\nviolation: [v]\nvalidations:\n  v:\n    targetClass: ex.T\n    if: {}\n    then: {}\n",
		"profile: x\nprefixes: {ex: \"http://ex.org/\"}\nviolation: [v]\nvalidations:\n  v:\n    targetClass: ex.T\n    propertyConstraints: {}\n",
		"profile: x\nprefixes: {ex: \"http://ex.org/\"}\nviolation: [v]\nvalidations:\n  v:\n    targetClass: ex.T\n    propertyConstraints:\n      ex.a: {}\n",
		"profile: x\nprefixes: {ex: \"http://ex.org/\"}\nviolation: [v]\nvalidations:\n  v:\n    targetClass: ex.T\n    propertyConstraints:\n      ex.a: {in: [[a]], pattern: \"(\", minInclusive: x, datatype: 5, lessThanProperty: \"(\"}\n",
		"profile: x\nprefixes: {ex: \"http://ex.org/\"}\nviolation: [v]\nvalidations:\n  v:\n    targetClass: ex.T\n    rego: 5\n",
		"profile: x\nprefixes: {ex: \"http://ex.org/\"}\nviolation: [v]\nvalidations:\n  v:\n    targetClass: ex.T\n    rego: {message: m}\n",
		"profile: x\nprefixes: {ex: \"http://ex.org/\"}\nviolation: [v]\nvalidations:\n  v:\n    targetClass: ex.T\n    rego: \"$result = (\"\n",
		"profile: x\nvalidations: " + deep + "\n", "profile: x\nvalidations: " + deepMap + "\n",
		// anchors and aliases, including aliases to an enclosing node
		"profile: x\nprefixes: {ex: \"http://ex.org/\"}\nviolation: [v]\nvalidations:\n  v: &self\n    targetClass: ex.T\n    not: *self\n",
		"profile: x\nprefixes: {ex: \"http://ex.org/\"}\nviolation: [v]\nvalidations:\n  v:\n    targetClass: ex.T\n    and: &items\n      - propertyConstraints: {ex.a: {minCount: 1}}\n      - and: *items\n",
		"profile: x\nprefixes: {ex: \"http://ex.org/\"}\nviolation: [v]\nvalidations:\n  v:\n    targetClass: ex.T\n    propertyConstraints: &pc\n      ex.a:\n        nested:\n          propertyConstraints: *pc\n",
		"profile: x\nprefixes: {ex: \"http://ex.org/\"}\nviolation: [v, w]\nvalidations:\n  v:\n    targetClass: ex.T\n    propertyConstraints: &shared\n      ex.a: {minCount: 1}\n  w:\n    targetClass: ex.T\n    propertyConstraints: *shared\n",
		"profile: x\nprefixes: &p {ex: \"http://ex.org/\"}\nviolation: &l [v]\nwarning: *l\nvalidations: &vals\n  v:\n    targetClass: ex.T\n    or:\n      - *vals\n",
		"profile: &n x\nvalidations: {*n : {targetClass: *n}}\n",
	}
}

// MutateBytes applies byte-level damage.
func MutateBytes(r *rand.Rand, s string) string {
	b := []byte(s)
	if len(b) == 0 {
		return "\xff"
	}
	switch r.Intn(7) {
	case 0:
		return string(b[:r.Intn(len(b))])
	case 1:
		b[r.Intn(len(b))] ^= byte(1 << uint(r.Intn(8)))
	case 2:
		i, j := r.Intn(len(b)), r.Intn(len(b))
		if i > j {
			i, j = j, i
		}
		return string(b[:i]) + string(b[j:])
	case 3:
		i := r.Intn(len(b))
		return string(b[:i]) + "\x00" + string(b[i:])
	case 4:
		i := r.Intn(len(b))
		return string(b[:i]) + pick(r, "\xff\xfe", "\xc3\x28", "\xed\xa0\x80", "\xf8\x88\x80\x80\x80") + string(b[i:])
	case 5:
		i, j := r.Intn(len(b)), r.Intn(len(b))
		return string(b[:i]) + string(b[j:]) + string(b[:j])
	case 6:
		i := r.Intn(len(b))
		return string(b[:i]) + pick(r, "{", "}", "[", "]", ":", ",", "\"", "'", "\n", "\t", "- ", "&a ", "*a ", "!!binary ", "|", ">") + string(b[i:])
	}
	return string(b)
}

// MutateJSONTree replaces k random sites of a JSON document by values of another shape.
func MutateJSONTree(r *rand.Rand, text string, k int) (string, bool) {
	v, ok := ReadableJSON(text)
	if !ok {
		return "", false
	}
	type site struct {
		m map[string]any
		a []any
		k string
		i int
	}
	for n := 0; n < k; n++ {
		var sites []site
		var walk func(x any)
		walk = func(x any) {
			switch t := x.(type) {
			case map[string]any:
				for _, key := range SortedKeys(t) {
					sites = append(sites, site{m: t, k: key})
					walk(t[key])
				}
			case []any:
				for i, e := range t {
					sites = append(sites, site{a: t, i: i})
					walk(e)
				}
			}
		}
		walk(v)
		if len(sites) == 0 {
			break
		}
		s := sites[r.Intn(len(sites))]
		wrong := []any{json.Number("5"), json.Number("1e400"), json.Number("-0"), true, nil, map[string]any{}, []any{}, "", "x", map[string]any{"@id": json.Number("1")}, map[string]any{"@value": nil}, []any{[]any{[]any{}}},
			map[string]any{"@id": "http://ex.org/dangling"}, []any{"a", json.Number("1"), nil, map[string]any{}}, map[string]any{"@list": []any{}}, map[string]any{"@type": "@id"}, "[(1,1)-(2,2)]", "[(007,01)-(2,2)]", "[(a,b)-(c,d)]", "[(1,1)]", "[(-1,-1)-(1.5,2e3)]", strings.Repeat("9", 400)}
		w := wrong[r.Intn(len(wrong))]
		if s.m != nil {
			switch r.Intn(4) {
			case 0:
				delete(s.m, s.k)
			case 1:
				s.m[pick(r, "@id", "@type", "@graph", "@value", "@context", "@list", "@reverse", s.k+"x")] = w
			default:
				s.m[s.k] = w
			}
		} else {
			s.a[s.i] = w
		}
	}
	b, err := json.Marshal(v)
	if err != nil {
		return "", false
	}
	return string(b), true
}

// SpecialData: degenerate data documents.
func SpecialData() []string {
	return []string{"{}", "[]", "[{}]", "[[]]", "{\"@graph\":[]}", "{\"@graph\":[{}]}", "{\"@graph\":{}}", "{\"@context\":{\"ex\":\"http://ex.org/\"}}", "{\"@context\":{}}", "[{\"@context\":{}}]", "{\"@id\":\"http://ex.org/a\"}", "[{\"@id\":\"http://ex.org/a\"}]",
		"5", "\"s\"", "null", "true", "[1,2,3]", "[\"a\"]", "[null]", "{\"a\":1}", "{\"@graph\":5}", "{\"@graph\":\"x\"}", "{\"@graph\":[5]}", "{\"@graph\":[[{}]]}", "{\"@id\":\"_:b0\"}", "{\"@id\":\"relative\"}", "{\"@type\":\"http://ex.org/T\"}", "{\"@type\":[\"http://ex.org/T\"],\"@id\":\"http://ex.org/a\"}",
		"{\"@id\":\"http://ex.org/a\",\"@id\":\"http://ex.org/b\"}", "{\"@id\":\"http://ex.org/a\",\"http://ex.org/p\":1e999}", "{\"@id\":\"http://ex.org/a\",\"http://ex.org/p\":123456789012345678901234567890}", "{\"@id\":\"http://ex.org/a\",\"http://ex.org/p\":[[]]}",
		strings.Repeat("[", 9000) + strings.Repeat("]", 9000), strings.Repeat("{\"@graph\":", 3000) + "[]" + strings.Repeat("}", 3000), "{\"@id\":\"http://ex.org/a\",\"http://ex.org/p\":{\"@list\":[1,2]}}", "{\"@id\":\"http://ex.org/a\",\"http://ex.org/p\":{\"@value\":\"v\",\"@language\":\"en\"}}",
		"{\"@id\":\"http://ex.org/a\",\"http://ex.org/p\":{\"@value\":\"5\",\"@type\":\"http://www.w3.org/2001/XMLSchema#integer\"}}", "{\"@id\":\"http://ex.org/a\",\"@reverse\":{\"http://ex.org/p\":{\"@id\":\"http://ex.org/b\"}}}",
	}
}

// SourceMapDoc builds an AMF-shaped document with lexical source maps (seed for type confusion on the normalizer's assertions).
func SourceMapDoc() string {
	doc := []any{
		map[string]any{"@id": "http://ex.org/unit", "@type": []any{"http://a.ml/vocabularies/document#Document"}, "http://a.ml/vocabularies/document#encodes": []any{map[string]any{"@id": "http://ex.org/n1"}},
			"http://a.ml/vocabularies/document#processingData": []any{map[string]any{"@id": "http://ex.org/pd"}}},
		map[string]any{"@id": "http://ex.org/pd", "@type": []any{"http://a.ml/vocabularies/document#APIContractProcessingData"}, "http://a.ml/vocabularies/document#sourceInformation": []any{map[string]any{"@id": "http://ex.org/si"}}},
		map[string]any{"@id": "http://ex.org/si", "@type": []any{"http://a.ml/vocabularies/document#BaseUnitSourceInformation"}, "http://a.ml/vocabularies/document#rootLocation": []any{map[string]any{"@value": "file:///root.yaml"}},
			"http://a.ml/vocabularies/document#additionalLocations": []any{map[string]any{"@id": "http://ex.org/loc1"}}},
		map[string]any{"@id": "http://ex.org/loc1", "@type": []any{"http://a.ml/vocabularies/document#LocationInformation"}, "http://a.ml/vocabularies/document#location": []any{map[string]any{"@value": "file:///lib.yaml"}},
			"http://a.ml/vocabularies/document#elements": []any{map[string]any{"@id": "http://ex.org/n2"}}},
		map[string]any{"@id": "http://ex.org/n1", "@type": []any{"http://ex.org/T"}, "http://ex.org/c": []any{map[string]any{"@id": "http://ex.org/n2"}}, "http://a.ml/vocabularies/document-source-maps#sources": []any{map[string]any{"@id": "http://ex.org/sm1"}}},
		map[string]any{"@id": "http://ex.org/n2", "@type": []any{"http://ex.org/T"}, "http://a.ml/vocabularies/document-source-maps#sources": []any{map[string]any{"@id": "http://ex.org/sm2"}}},
		map[string]any{"@id": "http://ex.org/sm1", "@type": []any{"http://a.ml/vocabularies/document-source-maps#SourceMap"}, "http://a.ml/vocabularies/document-source-maps#lexical": []any{map[string]any{"@id": "http://ex.org/lx1"}, map[string]any{"@id": "http://ex.org/lx1b"}}},
		map[string]any{"@id": "http://ex.org/sm2", "@type": []any{"http://a.ml/vocabularies/document-source-maps#SourceMap"}, "http://a.ml/vocabularies/document-source-maps#lexical": []any{map[string]any{"@id": "http://ex.org/lx2"}}},
		map[string]any{"@id": "http://ex.org/lx1", "http://a.ml/vocabularies/document-source-maps#element": []any{map[string]any{"@value": "http://ex.org/n1"}}, "http://a.ml/vocabularies/document-source-maps#value": []any{map[string]any{"@value": "[(1,0)-(5,10)]"}}},
		map[string]any{"@id": "http://ex.org/lx1b", "http://a.ml/vocabularies/document-source-maps#element": []any{map[string]any{"@value": "http://ex.org/c"}}, "http://a.ml/vocabularies/document-source-maps#value": []any{map[string]any{"@value": "[(2,0)-(3,10)]"}}},
		map[string]any{"@id": "http://ex.org/lx2", "http://a.ml/vocabularies/document-source-maps#element": []any{map[string]any{"@value": "http://ex.org/n2"}}, "http://a.ml/vocabularies/document-source-maps#value": []any{map[string]any{"@value": "[(7,2)-(9,4)]"}}},
	}
	var b bytes.Buffer
	enc := json.NewEncoder(&b)
	if err := enc.Encode(doc); err != nil {
		panic(fmt.Sprint(err))
	}
	return b.String()
}
