package lib

import (
	"fmt"
	"math/rand"
	"strings"
)

// ---- documented atomic constraints, each with witnesses making it classically true / false ----
//
// Soundness fence (DESIGN §5 C01): per-value atoms (pattern, in, lengths, numeric bounds, datatype, property
// comparisons) are realised on properties holding EXACTLY ONE value, containsAll/containsSome on non-empty
// value sets; only there "A" and "not A" are complements in the tool's per-value reading as well.

type AtomKind struct {
	Name       string
	Constraint func(i int) []Constraint                       // constraint(s) on property ex.p<i> (one key)
	Assign     func(n *Node, i int, truth bool, r *rand.Rand) // puts the witness values on the node
	PerValue   bool
}

func pI(i int) string    { return fmt.Sprintf("%sp%d", EX, i) }
func qI(i int) string    { return fmt.Sprintf("%sq%d", EX, i) }
func PName(i int) string { return fmt.Sprintf("ex.p%d", i) }
func QName(i int) string { return fmt.Sprintf("ex.q%d", i) }

func pick[T any](r *rand.Rand, xs ...T) T { return xs[r.Intn(len(xs))] }

func strs(xs ...string) []Value {
	out := make([]Value, len(xs))
	for i, x := range xs {
		out[i] = StrV(x)
	}
	return out
}

func one(v Value) func(*Node, int) {
	return func(n *Node, i int) { n.Add(pI(i), v) }
}

// AtomKinds lists every documented atomic constraint (tutorial sections 2 and 3).
var AtomKinds = []AtomKind{
	{Name: "minCount1", Constraint: func(i int) []Constraint { return []Constraint{CScalar("minCount", Int(1))} },
		Assign: func(n *Node, i int, t bool, r *rand.Rand) {
			if t {
				n.Add(pI(i), strs("v")...)
			}
		}},
	{Name: "minCount2", Constraint: func(i int) []Constraint { return []Constraint{CScalar("minCount", Int(2))} },
		Assign: func(n *Node, i int, t bool, r *rand.Rand) {
			if t {
				n.Add(pI(i), strs("v", "w", "x")[:2+r.Intn(2)]...)
			} else if r.Intn(2) == 0 {
				n.Add(pI(i), strs("v")...)
			}
		}},
	{Name: "maxCount0", Constraint: func(i int) []Constraint { return []Constraint{CScalar("maxCount", Int(0))} },
		Assign: func(n *Node, i int, t bool, r *rand.Rand) {
			if !t {
				n.Add(pI(i), strs("v", "w")[:1+r.Intn(2)]...)
			}
		}},
	{Name: "maxCount1", Constraint: func(i int) []Constraint { return []Constraint{CScalar("maxCount", Int(1))} },
		Assign: func(n *Node, i int, t bool, r *rand.Rand) {
			if !t {
				n.Add(pI(i), strs("v", "w", "x")[:2+r.Intn(2)]...)
			} else if r.Intn(2) == 0 {
				n.Add(pI(i), strs("v")...)
			}
		}},
	{Name: "exactCount2", Constraint: func(i int) []Constraint { return []Constraint{CScalar("exactCount", Int(2))} },
		Assign: func(n *Node, i int, t bool, r *rand.Rand) {
			if t {
				n.Add(pI(i), strs("v", "w")...)
			} else {
				k := pick(r, 0, 1, 3)
				n.Add(pI(i), strs("v", "w", "x")[:k]...)
			}
		}},
	{Name: "pattern", PerValue: true, Constraint: func(i int) []Constraint { return []Constraint{CScalar("pattern", Str("^ye+s$"))} },
		Assign: func(n *Node, i int, t bool, r *rand.Rand) {
			if t {
				n.Add(pI(i), StrV(pick(r, "yes", "yees")))
			} else {
				n.Add(pI(i), StrV(pick(r, "no", "yesx", "ys")))
			}
		}},
	{Name: "in", PerValue: true, Constraint: func(i int) []Constraint { return []Constraint{CList("in", "yes", "y2")} },
		Assign: func(n *Node, i int, t bool, r *rand.Rand) {
			if t {
				n.Add(pI(i), StrV(pick(r, "yes", "y2")))
			} else {
				n.Add(pI(i), StrV(pick(r, "zzz", "Yes")))
			}
		}},
	{Name: "inInt", PerValue: true, Constraint: func(i int) []Constraint {
		return []Constraint{{Key: "in", Value: YSeqOf(Int(1), Int(2))}}
	},
		Assign: func(n *Node, i int, t bool, r *rand.Rand) {
			if t {
				n.Add(pI(i), IntV(pick(r, int64(1), int64(2))))
			} else {
				n.Add(pI(i), IntV(3))
			}
		}},
	{Name: "containsAll", Constraint: func(i int) []Constraint { return []Constraint{CList("containsAll", "yes", "y2")} },
		Assign: func(n *Node, i int, t bool, r *rand.Rand) {
			if t {
				n.Add(pI(i), strs("yes", "y2", "extra")[:2+r.Intn(2)]...)
			} else {
				n.Add(pI(i), pick(r, strs("yes"), strs("extra"), strs("y2", "extra"))...)
			}
		}},
	{Name: "containsSome", Constraint: func(i int) []Constraint { return []Constraint{CList("containsSome", "yes", "y2")} },
		Assign: func(n *Node, i int, t bool, r *rand.Rand) {
			if t {
				n.Add(pI(i), pick(r, strs("yes"), strs("y2", "extra"), strs("yes", "y2"))...)
			} else {
				n.Add(pI(i), pick(r, strs("extra"), strs("extra", "other"))...)
			}
		}},
	{Name: "minInclusive", PerValue: true, Constraint: func(i int) []Constraint { return []Constraint{CScalar("minInclusive", Int(5))} },
		Assign: func(n *Node, i int, t bool, r *rand.Rand) {
			if t {
				n.Add(pI(i), IntV(pick(r, int64(5), int64(6), int64(100))))
			} else {
				n.Add(pI(i), IntV(pick(r, int64(4), int64(0), int64(-3))))
			}
		}},
	{Name: "minExclusive", PerValue: true, Constraint: func(i int) []Constraint { return []Constraint{CScalar("minExclusive", Int(5))} },
		Assign: func(n *Node, i int, t bool, r *rand.Rand) {
			if t {
				n.Add(pI(i), IntV(pick(r, int64(6), int64(100))))
			} else {
				n.Add(pI(i), IntV(pick(r, int64(5), int64(4))))
			}
		}},
	{Name: "maxInclusive", PerValue: true, Constraint: func(i int) []Constraint { return []Constraint{CScalar("maxInclusive", Int(5))} },
		Assign: func(n *Node, i int, t bool, r *rand.Rand) {
			if t {
				n.Add(pI(i), IntV(pick(r, int64(5), int64(4), int64(-1))))
			} else {
				n.Add(pI(i), IntV(pick(r, int64(6), int64(50))))
			}
		}},
	{Name: "maxExclusive", PerValue: true, Constraint: func(i int) []Constraint { return []Constraint{CScalar("maxExclusive", Int(5))} },
		Assign: func(n *Node, i int, t bool, r *rand.Rand) {
			if t {
				n.Add(pI(i), IntV(pick(r, int64(4), int64(0))))
			} else {
				n.Add(pI(i), IntV(pick(r, int64(5), int64(6))))
			}
		}},
	{Name: "minLength", PerValue: true, Constraint: func(i int) []Constraint { return []Constraint{CScalar("minLength", Int(3))} },
		Assign: func(n *Node, i int, t bool, r *rand.Rand) {
			if t {
				n.Add(pI(i), StrV(pick(r, "abc", "abcd")))
			} else {
				n.Add(pI(i), StrV(pick(r, "ab", "a")))
			}
		}},
	{Name: "maxLength", PerValue: true, Constraint: func(i int) []Constraint { return []Constraint{CScalar("maxLength", Int(3))} },
		Assign: func(n *Node, i int, t bool, r *rand.Rand) {
			if t {
				n.Add(pI(i), StrV(pick(r, "abc", "a")))
			} else {
				n.Add(pI(i), StrV(pick(r, "abcd", "abcdefgh")))
			}
		}},
	{Name: "exactLength", PerValue: true, Constraint: func(i int) []Constraint { return []Constraint{CScalar("exactLength", Int(3))} },
		Assign: func(n *Node, i int, t bool, r *rand.Rand) {
			if t {
				n.Add(pI(i), StrV("abc"))
			} else {
				n.Add(pI(i), StrV(pick(r, "ab", "abcd")))
			}
		}},
	{Name: "datatypeInteger", PerValue: true, Constraint: func(i int) []Constraint { return []Constraint{CScalar("datatype", Str("xsd.integer"))} },
		Assign: func(n *Node, i int, t bool, r *rand.Rand) {
			if t {
				n.Add(pI(i), IntV(7))
			} else {
				n.Add(pI(i), pick(r, StrV("seven"), BoolV(true)))
			}
		}},
	{Name: "datatypeString", PerValue: true, Constraint: func(i int) []Constraint { return []Constraint{CScalar("datatype", Str("xsd.string"))} },
		Assign: func(n *Node, i int, t bool, r *rand.Rand) {
			if t {
				n.Add(pI(i), StrV("s"))
			} else {
				n.Add(pI(i), pick(r, IntV(7), BoolV(false)))
			}
		}},
	{Name: "datatypeBoolean", PerValue: true, Constraint: func(i int) []Constraint { return []Constraint{CScalar("datatype", Str("xsd.boolean"))} },
		Assign: func(n *Node, i int, t bool, r *rand.Rand) {
			if t {
				n.Add(pI(i), BoolV(r.Intn(2) == 0))
			} else {
				n.Add(pI(i), pick(r, IntV(1), StrV("true")))
			}
		}},
	{Name: "lessThanProperty", PerValue: true, Constraint: func(i int) []Constraint { return []Constraint{CScalar("lessThanProperty", Str(QName(i)))} },
		Assign: func(n *Node, i int, t bool, r *rand.Rand) {
			n.Add(qI(i), IntV(5))
			if t {
				n.Add(pI(i), IntV(pick(r, int64(4), int64(-2))))
			} else {
				n.Add(pI(i), IntV(pick(r, int64(5), int64(9))))
			}
		}},
	{Name: "lessThanOrEqualsToProperty", PerValue: true, Constraint: func(i int) []Constraint { return []Constraint{CScalar("lessThanOrEqualsToProperty", Str(QName(i)))} },
		Assign: func(n *Node, i int, t bool, r *rand.Rand) {
			n.Add(qI(i), IntV(5))
			if t {
				n.Add(pI(i), IntV(pick(r, int64(5), int64(1))))
			} else {
				n.Add(pI(i), IntV(pick(r, int64(6), int64(9))))
			}
		}},
	{Name: "equalsToProperty", PerValue: true, Constraint: func(i int) []Constraint { return []Constraint{CScalar("equalsToProperty", Str(QName(i)))} },
		Assign: func(n *Node, i int, t bool, r *rand.Rand) {
			n.Add(qI(i), StrV("same"))
			if t {
				n.Add(pI(i), StrV("same"))
			} else {
				n.Add(pI(i), StrV("different"))
			}
		}},
	{Name: "disjointWithProperty", PerValue: true, Constraint: func(i int) []Constraint { return []Constraint{CScalar("disjointWithProperty", Str(QName(i)))} },
		Assign: func(n *Node, i int, t bool, r *rand.Rand) {
			n.Add(qI(i), StrV("same"))
			if t {
				n.Add(pI(i), StrV("different"))
			} else {
				n.Add(pI(i), StrV("same"))
			}
		}},
}

func init() {
	// compound atoms: several constraint keys in one constraint mapping (their implicit conjunction is the atom)
	AtomKinds = append(AtomKinds,
		AtomKind{Name: "rangeInclusive", PerValue: true, Constraint: func(i int) []Constraint {
			return []Constraint{CScalar("minInclusive", Int(5)), CScalar("maxInclusive", Int(10))}
		}, Assign: func(n *Node, i int, t bool, r *rand.Rand) {
			if t {
				n.Add(pI(i), IntV(pick(r, int64(5), int64(7), int64(10))))
			} else {
				n.Add(pI(i), IntV(pick(r, int64(4), int64(11), int64(-1))))
			}
		}},
		AtomKind{Name: "lengthRange", PerValue: true, Constraint: func(i int) []Constraint {
			return []Constraint{CScalar("minLength", Int(2)), CScalar("maxLength", Int(4)), CScalar("pattern", Str("^a"))}
		}, Assign: func(n *Node, i int, t bool, r *rand.Rand) {
			if t {
				n.Add(pI(i), StrV(pick(r, "ab", "abcd")))
			} else {
				n.Add(pI(i), StrV(pick(r, "a", "abcde", "bcd")))
			}
		}},
		AtomKind{Name: "minInclusiveFraction", PerValue: true, Constraint: func(i int) []Constraint { return []Constraint{CScalar("minInclusive", RawScalar("2.5"))} },
			Assign: func(n *Node, i int, t bool, r *rand.Rand) {
				if t {
					n.Add(pI(i), pick(r, FloatV(2.5), FloatV(3.75), IntV(3)))
				} else {
					n.Add(pI(i), pick(r, FloatV(2.25), IntV(2), FloatV(-0.5)))
				}
			}},
		AtomKind{Name: "maxExclusiveFraction", PerValue: true, Constraint: func(i int) []Constraint { return []Constraint{CScalar("maxExclusive", RawScalar("-1.5"))} },
			Assign: func(n *Node, i int, t bool, r *rand.Rand) {
				if t {
					n.Add(pI(i), pick(r, FloatV(-1.75), IntV(-2)))
				} else {
					n.Add(pI(i), pick(r, FloatV(-1.5), IntV(-1), FloatV(0.5)))
				}
			}},
		AtomKind{Name: "minInclusiveTinyFraction", PerValue: true, Constraint: func(i int) []Constraint { return []Constraint{CScalar("minInclusive", RawScalar("0.0000005"))} },
			Assign: func(n *Node, i int, t bool, r *rand.Rand) {
				if t {
					n.Add(pI(i), pick(r, FloatV(0.0000007), FloatV(0.0000005), IntV(1)))
				} else {
					n.Add(pI(i), pick(r, FloatV(0.0000002), IntV(0), FloatV(-0.0000009)))
				}
			}},
		AtomKind{Name: "datatypeFloat", PerValue: true, Constraint: func(i int) []Constraint { return []Constraint{CScalar("datatype", Str("xsd.float"))} },
			Assign: func(n *Node, i int, t bool, r *rand.Rand) {
				if t {
					n.Add(pI(i), FloatV(2.5))
				} else {
					n.Add(pI(i), pick(r, StrV("2.5"), BoolV(true)))
				}
			}},
		AtomKind{Name: "inBoolean", PerValue: true, Constraint: func(i int) []Constraint { return []Constraint{{Key: "in", Value: YSeqOf(Bool(true))}} },
			Assign: func(n *Node, i int, t bool, r *rand.Rand) { n.Add(pI(i), BoolV(t)) }},
		// KNOWN FINDING (known_findings.json, key in-with-fractional-number): the tool compares the string forms of
		// numbers after truncating them to integers, so a fractional number never equals a listed fractional number
		AtomKind{Name: "inFractional", PerValue: true, Constraint: func(i int) []Constraint {
			return []Constraint{{Key: "in", Value: YSeqOf(RawScalar("2.5"), RawScalar("7.25"))}}
		}, Assign: func(n *Node, i int, t bool, r *rand.Rand) {
			if t {
				n.Add(pI(i), pick(r, FloatV(2.5), FloatV(7.25)))
			} else {
				n.Add(pI(i), pick(r, FloatV(3.5), FloatV(2.75)))
			}
		}},
		AtomKind{Name: "countRange", Constraint: func(i int) []Constraint {
			return []Constraint{CScalar("minCount", Int(1)), CScalar("maxCount", Int(2))}
		}, Assign: func(n *Node, i int, t bool, r *rand.Rand) {
			if t {
				n.Add(pI(i), strs("v", "w")[:1+r.Intn(2)]...)
			} else if r.Intn(2) == 0 {
				n.Add(pI(i), strs("v", "w", "x")...)
			}
		}},
	)
}

func init() {
	// scale and rarer value shapes: lengths counted in characters (not bytes), non-ASCII patterns, long strings,
	// negative and beyond-32-bit numbers, many values on one property
	long := strings.Repeat("abcdefghij", 30)
	manyVals := func(k int) []Value {
		out := make([]Value, k)
		for j := range out {
			out[j] = StrV(fmt.Sprintf("val%03d", j))
		}
		return out
	}
	var twelve []string
	for j := 0; j < 12; j++ {
		twelve = append(twelve, fmt.Sprintf("val%03d", j*3))
	}
	AtomKinds = append(AtomKinds,
		AtomKind{Name: "minLengthNonAscii", PerValue: true, Constraint: func(i int) []Constraint { return []Constraint{CScalar("minLength", Int(3))} },
			Assign: func(n *Node, i int, t bool, r *rand.Rand) {
				if t {
					n.Add(pI(i), StrV(pick(r, "äöü", "日本語x", "ñandú")))
				} else {
					n.Add(pI(i), StrV(pick(r, "äö", "日本", "é")))
				}
			}},
		AtomKind{Name: "maxLengthNonAscii", PerValue: true, Constraint: func(i int) []Constraint { return []Constraint{CScalar("maxLength", Int(2))} },
			Assign: func(n *Node, i int, t bool, r *rand.Rand) {
				if t {
					n.Add(pI(i), StrV(pick(r, "äö", "é", "日本")))
				} else {
					n.Add(pI(i), StrV(pick(r, "äöü", "日本語")))
				}
			}},
		AtomKind{Name: "patternNonAscii", PerValue: true, Constraint: func(i int) []Constraint { return []Constraint{CScalar("pattern", Str("^caf[eé]s?$"))} },
			Assign: func(n *Node, i int, t bool, r *rand.Rand) {
				if t {
					n.Add(pI(i), StrV(pick(r, "café", "cafes", "cafés")))
				} else {
					n.Add(pI(i), StrV(pick(r, "cafè", "xcafé", "caf")))
				}
			}},
		AtomKind{Name: "inLongString", PerValue: true, Constraint: func(i int) []Constraint { return []Constraint{CList("in", long, "b")} },
			Assign: func(n *Node, i int, t bool, r *rand.Rand) {
				if t {
					n.Add(pI(i), StrV(pick(r, long, "b")))
				} else {
					n.Add(pI(i), StrV(pick(r, long[:299], long+"x", "B")))
				}
			}},
		AtomKind{Name: "inNegativeInt", PerValue: true, Constraint: func(i int) []Constraint {
			return []Constraint{{Key: "in", Value: YSeqOf(Int(-1), Int(0))}}
		}, Assign: func(n *Node, i int, t bool, r *rand.Rand) {
			if t {
				n.Add(pI(i), IntV(pick(r, int64(-1), int64(0))))
			} else {
				n.Add(pI(i), IntV(pick(r, int64(1), int64(-10))))
			}
		}},
		AtomKind{Name: "minInclusiveNegative", PerValue: true, Constraint: func(i int) []Constraint { return []Constraint{CScalar("minInclusive", Int(-5))} },
			Assign: func(n *Node, i int, t bool, r *rand.Rand) {
				if t {
					n.Add(pI(i), IntV(pick(r, int64(-5), int64(-4), int64(0))))
				} else {
					n.Add(pI(i), IntV(pick(r, int64(-6), int64(-100))))
				}
			}},
		AtomKind{Name: "maxInclusiveBeyond32Bits", PerValue: true, Constraint: func(i int) []Constraint {
			return []Constraint{CScalar("maxInclusive", RawScalar("2147483648"))}
		}, Assign: func(n *Node, i int, t bool, r *rand.Rand) {
			if t {
				n.Add(pI(i), IntV(pick(r, int64(2147483648), int64(5), int64(-2147483649))))
			} else {
				n.Add(pI(i), IntV(pick(r, int64(2147483649), int64(4294967296))))
			}
		}},
		AtomKind{Name: "containsAll12Of40", Constraint: func(i int) []Constraint { return []Constraint{CList("containsAll", twelve...)} },
			Assign: func(n *Node, i int, t bool, r *rand.Rand) {
				vals := manyVals(40)
				if !t {
					drop := r.Intn(12) * 3
					vals = append(vals[:drop:drop], vals[drop+1:]...)
				}
				n.Add(pI(i), Shuffled(r, vals)...)
			}},
		// lists that repeat an entry, literally or after conversion to strings: the listed values are a set
		AtomKind{Name: "containsSomeRepeatedEntries", Constraint: func(i int) []Constraint {
			return []Constraint{{Key: "containsSome", Value: YSeqOf(Str("yes"), Str("yes"), Str("1"), Int(1))}}
		}, Assign: func(n *Node, i int, t bool, r *rand.Rand) {
			if t {
				n.Add(pI(i), pick(r, strs("yes"), strs("1", "extra"), strs("yes", "1"))...)
			} else {
				n.Add(pI(i), pick(r, strs("extra"), strs("extra", "other"))...)
			}
		}},
		AtomKind{Name: "containsAllRepeatedEntries", Constraint: func(i int) []Constraint { return []Constraint{CList("containsAll", "yes", "y2", "yes", "y2", "yes")} },
			Assign: func(n *Node, i int, t bool, r *rand.Rand) {
				if t {
					n.Add(pI(i), strs("yes", "y2", "extra")[:2+r.Intn(2)]...)
				} else {
					n.Add(pI(i), pick(r, strs("yes"), strs("extra"), strs("y2", "extra"))...)
				}
			}},
		AtomKind{Name: "inRepeatedEntries", PerValue: true, Constraint: func(i int) []Constraint {
			return []Constraint{{Key: "in", Value: YSeqOf(Str("yes"), Str("yes"), Str("y2"), Str("yes"))}}
		}, Assign: func(n *Node, i int, t bool, r *rand.Rand) {
			if t {
				n.Add(pI(i), StrV(pick(r, "yes", "y2")))
			} else {
				n.Add(pI(i), StrV(pick(r, "zzz", "Yes")))
			}
		}},
		AtomKind{Name: "countRange20To30", Constraint: func(i int) []Constraint {
			return []Constraint{CScalar("minCount", Int(20)), CScalar("maxCount", Int(30))}
		}, Assign: func(n *Node, i int, t bool, r *rand.Rand) {
			if t {
				n.Add(pI(i), manyVals(pick(r, 20, 25, 30))...)
			} else {
				n.Add(pI(i), manyVals(pick(r, 19, 31, 0, 64))...)
			}
		}},
	)
}
