package lib

import (
	"bytes"
	"encoding/json"
	"fmt"
	"math/rand"
	"os"
	"path/filepath"
	"sort"
	"strings"
	"unicode/utf16"

	"github.com/piprate/json-gold/ld"
)

// ---- inputs for the robustness properties (C04, C16, C17) ----

// ReadableJSON: can a complete JSON value be read from the text? (the statement's own criterion)
func ReadableJSON(text string) (any, bool) {
	dec := json.NewDecoder(bytes.NewBufferString(text))
	dec.UseNumber()
	var v any
	if err := dec.Decode(&v); err != nil {
		return nil, false
	}
	return v, true
}

// JSONLDRejects: does the JSON-LD processor (json-gold, a dependency, run here on its own) reject the document?
// Expansion is the first step of every JSON-LD algorithm: a document that cannot be expanded cannot be processed.
func JSONLDRejects(v any) (rejected bool) {
	defer func() {
		if r := recover(); r != nil {
			rejected = true
		}
	}()
	proc := ld.NewJsonLdProcessor()
	opts := ld.NewJsonLdOptions("")
	if _, err := proc.Expand(v, opts); err != nil {
		return true
	}
	// rejections that only show when the node map is built (e.g. one @id under two different @index values)
	_, err := proc.Flatten(v, map[string]any{}, ld.NewJsonLdOptions(""))
	return err != nil
}

// HasNodes: does the (expandable) document denote at least one node? (flattened graph non-empty)
func HasNodes(v any) (has bool, ok bool) {
	defer func() {
		if r := recover(); r != nil {
			ok = false
		}
	}()
	proc := ld.NewJsonLdProcessor()
	opts := ld.NewJsonLdOptions("")
	fl, err := proc.Flatten(v, map[string]any{}, opts)
	if err != nil {
		return false, false
	}
	switch x := fl.(type) {
	case []any:
		return len(x) > 0, true
	case map[string]any:
		g, _ := x["@graph"].([]any)
		return len(g) > 0, true
	}
	return false, true
}

// Fixtures read from /repo at run time are INPUTS (seeds for mutation), never oracles.
type Fixtures struct {
	Data      []string // JSON-LD documents
	Profiles  []string // profile YAML texts
	NonJSON   []string // YAML / RAML / other sources (not JSON)
	DataNames []string
}

func RepoDir() string {
	if d := os.Getenv("VERIF_REPO"); d != "" {
		return d
	}
	return "/repo"
}

func LoadFixtures(maxData, maxProfiles int) *Fixtures {
	f := &Fixtures{}
	var dataFiles, profFiles, other []string
	_ = filepath.Walk(RepoDir()+"/test/data", func(p string, info os.FileInfo, err error) error {
		if err != nil || info.IsDir() {
			return nil
		}
		switch {
		case strings.HasSuffix(p, ".jsonld") && info.Size() < 16*1024 && !strings.Contains(filepath.Base(p), "report"):
			dataFiles = append(dataFiles, p)
		case strings.HasSuffix(p, "profile.yaml") && info.Size() < 16*1024:
			profFiles = append(profFiles, p)
		}
		return nil
	})
	_ = filepath.Walk(RepoDir()+"/docs/validation_tutorial/examples", func(p string, info os.FileInfo, err error) error {
		if err != nil || info.IsDir() {
			return nil
		}
		if (strings.HasSuffix(p, ".yaml") || strings.HasSuffix(p, ".raml") || strings.HasSuffix(p, ".graphql") || strings.HasSuffix(p, ".proto")) && info.Size() < 16*1024 {
			other = append(other, p)
		}
		return nil
	})
	sort.Strings(dataFiles)
	sort.Strings(profFiles)
	sort.Strings(other)
	take := func(files []string, max int) []string {
		if len(files) <= max {
			return files
		}
		step := float64(len(files)) / float64(max)
		var out []string
		for i := 0; i < max; i++ {
			out = append(out, files[int(float64(i)*step)])
		}
		return out
	}
	for _, p := range take(dataFiles, maxData) {
		if b, err := os.ReadFile(p); err == nil {
			f.Data = append(f.Data, string(b))
			f.DataNames = append(f.DataNames, p)
		}
	}
	for _, p := range take(profFiles, maxProfiles) {
		if b, err := os.ReadFile(p); err == nil {
			f.Profiles = append(f.Profiles, string(b))
		}
	}
	for _, p := range take(other, 40) {
		if b, err := os.ReadFile(p); err == nil {
			f.NonJSON = append(f.NonJSON, string(b))
		}
	}
	// built-in non-JSON sources (kept even if the repository's examples move)
	f.NonJSON = append(f.NonJSON,
		"#%RAML 1.0\ntitle: api\nversion: 1\n/users:\n  get:\n    responses:\n      204: {}\n      200:\n        body:\n          application/json:\n            example: {\"id\": 1}\n",
		"openapi: \"3.0.0\"\ninfo:\n  title: t\n  version: \"1\"\npaths: {}\n",
		"swagger: '2.0'\ninfo: {title: t, version: '1'}\nparameters: []\npaths: {}\n",
		"<?xml version=\"1.0\"?><rdf:RDF xmlns:rdf=\"http://www.w3.org/1999/02/22-rdf-syntax-ns#\"><rdf:Description rdf:about=\"x\">{}</rdf:Description></rdf:RDF>",
		"hello world", "conforms", "INFO loading model {\"@id\": \"x\"} done\n", "// comment\n{\"@id\": \"http://x/a\"}", "'{}'", "NaN", "undefined", "True", "---\n[]\n", "\ufeff{}",
	)
	return f
}

func utf16Bytes(s string, bigEndian, bom bool) string {
	u := utf16.Encode([]rune(s))
	var b []byte
	if bom {
		if bigEndian {
			b = append(b, 0xFE, 0xFF)
		} else {
			b = append(b, 0xFF, 0xFE)
		}
	}
	for _, c := range u {
		if bigEndian {
			b = append(b, byte(c>>8), byte(c))
		} else {
			b = append(b, byte(c), byte(c>>8))
		}
	}
	return string(b)
}

// UnreadableTexts derives, from valid documents, texts that should not be readable as JSON (the class is
// decided afterwards by ReadableJSON, not assumed).
func UnreadableTexts(r *rand.Rand, valid []string, nonJSON []string, profileTexts []string, perDoc int) []string {
	out := []string{"", " ", "\n", "\t \r\n", "\x00", "\xff\xfe", "{", "[", "[{", "{\"@id\"", "{\"@id\":", "\"unterminated", "[1,", "{]", "tru", "nul", "-", "{\"a\":1,}", "[,]", "{'a':1}",
		// texts that BEGIN with a closing delimiter or a separator (the tail of a file whose beginning was lost)
		"}", "]", "}]", " ]", "\n}\n", ",", ":", "}{}", "][]", "]]", "}}", ",[]", ":{}"}
	out = append(out, nonJSON...)
	out = append(out, profileTexts...)
	for _, d := range valid {
		trim := strings.TrimSpace(d)
		if len(trim) < 2 {
			continue
		}
		// proper prefixes at evenly spread cut points
		for k := 0; k < perDoc; k++ {
			cut := 1 + (len(trim)-2)*k/perDoc
			out = append(out, trim[:cut])
		}
		// proper suffixes (the beginning was lost) and a stray closing delimiter / separator in front of a whole document
		for k := 1; k < perDoc/2+1; k++ {
			cut := 1 + (len(trim)-2)*k/(perDoc/2+1)
			out = append(out, trim[cut:])
		}
		out = append(out, pick(r, "}", "]", "} ", "]\n", ",", ":")+trim)
		// encodings
		if len(trim) < 4000 {
			out = append(out, utf16Bytes(trim, false, true), utf16Bytes(trim, true, true), utf16Bytes(trim, false, false), utf16Bytes(trim, true, false))
		}
		// single byte corruptions
		for k := 0; k < perDoc/2+1; k++ {
			b := []byte(trim)
			pos := r.Intn(len(b))
			switch r.Intn(4) {
			case 0:
				b[pos] = byte(r.Intn(256))
			case 1:
				b = append(b[:pos], b[pos+1:]...)
			case 2:
				b = append(b[:pos], append([]byte{pick(r, byte('{'), byte('}'), byte('"'), byte(','), byte(':'), byte('['), byte(0))}, b[pos:]...)...)
			case 3:
				b[pos] = pick(r, byte('"'), byte('\\'), byte('\n'), byte('}'))
			}
			out = append(out, string(b))
		}
		// Latin-1 byte inside a string
		if i := strings.Index(trim, "\":\""); i > 0 {
			out = append(out, trim[:i+3]+"\xe9\xff"+trim[i+3:])
		}
	}
	return out
}

// JSONLDRejectCandidates: JSON documents aimed at the JSON-LD processor's error conditions (class decided by JSONLDRejects).
func JSONLDRejectCandidates(r *rand.Rand, valid []string) []string {
	out := []string{
		`{"@context": 5}`, `{"@context": true, "@id": "http://x/a"}`, `{"@context": [5], "@id": "http://x/a"}`, `{"@context": {"a": 5}, "a": "x"}`,
		`{"@context": {"@vocab": 3}}`, `{"@context": {"@base": {}}}`, `{"@context": {"@language": 7}}`, `{"@context": {"t": {"@id": 4}}, "t": 1}`,
		`{"@context": {"t": {"@id": "http://x/t", "@type": 9}}, "t": 1}`, `{"@context": {"t": {"@id": "http://x/t", "@container": "@bogus"}}, "t": 1}`,
		`{"@context": {"t": {"@reverse": "http://x/t", "@id": "http://x/u"}}, "t": 1}`, `{"@context": {"@id": "http://x/alias"}}`, `{"@context": {"a": "b", "b": "a"}, "a": 1}`,
		`{"@id": 5}`, `{"@id": ["http://x/a"]}`, `{"@id": {"@id": "x"}}`, `[{"@id": true, "http://x/p": 1}]`,
		`{"@id": "http://x/a", "http://x/p": {"@value": "v", "@id": "http://x/b"}}`, `{"@id": "http://x/a", "http://x/p": {"@value": {"a": 1}}}`, `{"@id": "http://x/a", "http://x/p": {"@value": ["v"]}}`,
		`{"@id": "http://x/a", "http://x/p": {"@value": "v", "@language": 5}}`, `{"@id": "http://x/a", "http://x/p": {"@value": 5, "@language": "en"}}`, `{"@id": "http://x/a", "http://x/p": {"@value": "v", "@type": 5}}`,
		`{"@id": "http://x/a", "http://x/p": {"@value": "v", "@type": "_:b"}}`, `{"@id": "http://x/a", "http://x/p": {"@value": "v", "@type": "t", "@language": "en"}}`,
		`{"@id": "http://x/a", "http://x/p": {"@list": [{"@list": [1]}]}}`, `{"@id": "http://x/a", "http://x/p": {"@list": [[1]]}}`, `{"@id": "http://x/a", "http://x/p": {"@set": [1], "@id": "x"}}`,
		`{"@id": "http://x/a", "@type": 5}`, `{"@id": "http://x/a", "@type": [5]}`, `{"@id": "http://x/a", "@type": {"@id": "x"}}`, `{"@id": "http://x/a", "@reverse": 5}`, `{"@id": "http://x/a", "@reverse": {"http://x/p": "lit"}}`,
		`{"@id": "http://x/a", "@reverse": {"@id": "x"}}`, `{"@id": "http://x/a", "@index": 5}`, `{"@id": "http://x/a", "@graph": 5, "@type": 5}`, `{"@id": "http://x/a", "@id ": "y", "@language": 5}`,
		`{"@graph": [{"@id": 7}]}`, `{"@graph": {"@id": "http://x/a", "@type": 4}}`, `[[{"@id": 5}]]`, `{"@context": {"id": "@id"}, "id": 5}`, `{"@context": {"type": "@type"}, "type": 5, "@id": "http://x/a"}`,
		`{"@context": {"v": "@value"}, "http://x/p": {"v": {}}}`, `{"@id": "http://x/a", "http://x/p": {"@id": 5}}`, `{"@id": "http://x/a", "http://x/p": [{"@value": null, "@type": 5}]}`,
		// rejected because of a relation between two entries, and documents on which the processor itself gives up abruptly
		`{"@context": {}, "@graph": [{"@id": "http://x/a", "@index": "i1"}, {"@id": "http://x/a", "@index": "i2"}]}`, `[{"@id": "http://x/a", "@index": "i1"}, {"@id": "http://x/a", "@index": "i2"}]`,
		`{"@context": {}, "@graph": [{"@id": "http://x/a", "@type": "http://x/T", "@index": "i1"}, {"@id": "http://x/b", "http://x/p": {"@id": "http://x/a", "@index": "i2"}}]}`,
		`{"@context": [{"@base": null}, {"@base": "relative/"}], "@id": "a"}`, `{"@context": {"@protected": "yes"}, "@id": "http://x/a"}`, `{"@context": {"t": {"@id": "http://x/t", "@container": [1.1]}}, "t": 1}`,
		`{"@context": {"t": {"@id": "http://x/t", "@nest": 5}}, "t": 1}`, `{"@context": {"t": {"@id": "http://x/t", "@nest": "@id"}}, "t": 1}`, `{"@context": {"n": "@nest"}, "n": 5, "@id": "http://x/a"}`,
		`{"@context": {"@version": 2.0}}`, `{"@context": null, "@id": 1}`, `{"@id":"http://x/a","@included": 5}`, `{"@id":"http://x/a","@nest": 5}`,
	}
	// JSON type confusion on the JSON-LD keywords of valid documents
	for _, d := range valid {
		v, ok := ReadableJSON(d)
		if !ok {
			continue
		}
		for k := 0; k < 6; k++ {
			m := deepCopyJSON(v)
			if mutateKeyword(r, m) {
				if b, err := json.Marshal(m); err == nil {
					out = append(out, string(b))
				}
			}
		}
	}
	return out
}

func deepCopyJSON(v any) any {
	b, _ := json.Marshal(v)
	dec := json.NewDecoder(bytes.NewReader(b))
	dec.UseNumber()
	var out any
	_ = dec.Decode(&out)
	return out
}

// mutateKeyword replaces the value of one randomly chosen JSON-LD keyword by a value of a wrong JSON type.
func mutateKeyword(r *rand.Rand, v any) bool {
	type site struct {
		m map[string]any
		k string
	}
	var sites []site
	var walk func(x any)
	walk = func(x any) {
		switch t := x.(type) {
		case map[string]any:
			for _, k := range SortedKeys(t) {
				if strings.HasPrefix(k, "@") {
					sites = append(sites, site{t, k})
				}
				walk(t[k])
			}
		case []any:
			for _, e := range t {
				walk(e)
			}
		}
	}
	walk(v)
	if len(sites) == 0 {
		return false
	}
	s := sites[r.Intn(len(sites))]
	wrong := []any{json.Number("5"), true, nil, map[string]any{}, []any{}, []any{json.Number("1"), map[string]any{"@id": json.Number("2")}}, map[string]any{"@value": map[string]any{}}, "", "_:", []any{[]any{}}, map[string]any{"@list": []any{map[string]any{"@list": []any{}}}}}
	s.m[s.k] = wrong[r.Intn(len(wrong))]
	return true
}

// FlattenCanon returns a canonical rendering of the document's flattened form (nodes sorted by @id, the values
// of every property sorted) as computed by json-gold run independently in the harness; used only to verify that two
// documents generated by the harness denote the same graph before they are given to the code under test.
func FlattenCanon(text string) (string, error) {
	v, ok := ReadableJSON(text)
	if !ok {
		return "", fmt.Errorf("not JSON")
	}
	proc := ld.NewJsonLdProcessor()
	opts := ld.NewJsonLdOptions("")
	fl, err := proc.Flatten(v, nil, opts)
	if err != nil {
		return "", err
	}
	arr, _ := fl.([]any)
	sort.Slice(arr, func(i, j int) bool {
		a, _ := arr[i].(map[string]any)["@id"].(string)
		b, _ := arr[j].(map[string]any)["@id"].(string)
		return a < b
	})
	for _, n := range arr {
		if m, ok := n.(map[string]any); ok {
			for _, k := range SortedKeys(m) {
				// the values of a property (and the types of a node) are sets
				if vs, ok := m[k].([]any); ok {
					sort.Slice(vs, func(i, j int) bool {
						a, _ := json.Marshal(vs[i])
						b, _ := json.Marshal(vs[j])
						return string(a) < string(b)
					})
				}
			}
		}
	}
	b, err := json.Marshal(arr)
	return string(b), err
}
