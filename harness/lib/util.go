package lib

import (
	"math/rand"
	"runtime"
	"strings"
	"sync"
)

// ParallelFor runs f(0..n-1) on a pool of workers (default: number of CPUs).
func ParallelFor(n int, workers int, f func(i int)) {
	if workers <= 0 {
		workers = runtime.NumCPU()
	}
	var wg sync.WaitGroup
	ch := make(chan int)
	for w := 0; w < workers; w++ {
		wg.Add(1)
		go func() {
			defer wg.Done()
			for i := range ch {
				f(i)
			}
		}()
	}
	for i := 0; i < n; i++ {
		ch <- i
	}
	close(ch)
	wg.Wait()
}

// CaseRand gives the PRNG of case i of a run: cases depend only on (seed, stream, i).
func CaseRand(seed int64, stream int, i int) *rand.Rand {
	return rand.New(rand.NewSource(seed*1_000_003 + int64(stream)*7_919_000_000 + int64(i)*104_729 + 17))
}

func Shuffled[T any](r *rand.Rand, xs []T) []T {
	out := append([]T{}, xs...)
	r.Shuffle(len(out), func(i, j int) { out[i], out[j] = out[j], out[i] })
	return out
}

func SetEq(a, b []string) bool {
	if len(a) != len(b) {
		return false
	}
	for i := range a {
		if a[i] != b[i] {
			return false
		}
	}
	return true
}

// Namespaces a profile may bind its prefix to: not every vocabulary ends in '#' or '/'.
var Namespaces = []string{EX, "urn:ex:vocab:", "http://ex.org/terms_", "http://ex.org/q?t=", "http://ex.org/v#", "tag:ex.org,2024:"}

// Rebase moves a data document (or a report) from one namespace to another, textually: the namespaces above need no
// escaping inside JSON strings and do not occur in anything else the harness writes.
func Rebase(text, from, to string) string {
	if from == to {
		return text
	}
	return strings.ReplaceAll(text, from, to)
}
