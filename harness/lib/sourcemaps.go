package lib

import (
	"fmt"
	"math/rand"
)

// ---- AMF-shaped lexical source maps over a graph model, with the ground truth kept aside ----

const (
	nsSM  = "http://a.ml/vocabularies/document-source-maps#"
	nsDoc = "http://a.ml/vocabularies/document#"
)

type SMLoc struct {
	StartLine, StartCol, EndLine, EndCol string // decimal digits, arbitrary magnitude
	URI                                  string
}

type SMDoc struct {
	Text      string
	Loc       map[string]SMLoc // node id -> recorded location (only nodes with a node-level lexical entry)
	PropOnly  map[string]bool  // nodes that only have property-level entries
	Files     []string
	RootFile  string
	NodeFiles map[string]string
	// NoFileInformation: the document carries lexical entries but no BaseUnitSourceInformation: the uri of a
	// location is then not specified by anything (ranges and presence still are)
	NoFileInformation bool
}

var smMagnitudes = []string{"0", "1", "9", "10", "007", "00", "0010", "99", "100", "340", "2147483648", "4294967297", "9007199254740993", "123456789012345678901234567890"}

// DecorateWithSourceMaps renders the graph with source-map nodes added. The graph itself is not modified.
func DecorateWithSourceMaps(g *Graph, r *rand.Rand) *SMDoc {
	d := &SMDoc{Loc: map[string]SMLoc{}, PropOnly: map[string]bool{}, NodeFiles: map[string]string{}}
	d.RootFile = fmt.Sprintf("file:///specs/root%d.yaml", r.Intn(100))
	if r.Intn(5) == 0 {
		// locations are recorded strings, not necessarily file:// URIs: relative and absolute paths, other schemes
		d.RootFile = pick(r, "specs/root.yaml", "/abs/specs/root.raml", "C:\\specs\\api.raml", "urn:uuid:0b9d6c4e-root", "../up/root.yaml", "root with blank.yaml")
	}
	nAdd := r.Intn(4)
	for k := 0; k < nAdd; k++ {
		f := fmt.Sprintf("file:///specs/lib%d.raml", k)
		switch {
		case k == 1 && r.Intn(4) == 0:
			f = "" // an additional location recorded as the empty string is a location too
		case r.Intn(6) == 0:
			f = fmt.Sprintf("libs/relative%d.raml", k)
		}
		d.Files = append(d.Files, f)
	}
	// one SourceMap node for all the elements (each lexical entry names its element) instead of one per element
	shared := r.Intn(5) == 0
	sharedID := EX + "unit#/shared-source-map"
	var sharedLex []any
	arr := make([]any, 0, len(g.Nodes)*3)
	extra := []any{}
	fileElems := map[string][]string{}
	allInOne := nAdd > 0 && r.Intn(5) == 0
	for i, n := range g.Nodes {
		o := NodeObject(n)
		mode := r.Intn(10)
		switch {
		case mode < 6: // node-level entry (plus maybe property-level ones)
			num := func() string { return smMagnitudes[r.Intn(len(smMagnitudes))] }
			loc := SMLoc{StartLine: num(), StartCol: num(), EndLine: num(), EndCol: num()}
			if r.Intn(6) == 0 {
				loc.EndLine, loc.EndCol = loc.StartLine, loc.StartCol
			}
			file := d.RootFile
			if nAdd > 0 && (allInOne || r.Intn(2) == 0) {
				if allInOne {
					file = d.Files[0]
				} else {
					file = d.Files[r.Intn(nAdd)]
				}
				fileElems[file] = append(fileElems[file], n.ID)
			}
			loc.URI = file
			d.Loc[n.ID] = loc
			d.NodeFiles[n.ID] = file
			smID := fmt.Sprintf("%s/source-map", n.ID)
			var lex []any
			lxID := fmt.Sprintf("%s/source-map/lexical/element_0", n.ID)
			lex = append(lex, map[string]any{"@id": lxID})
			extra = append(extra, map[string]any{"@id": lxID,
				nsSM + "element": []any{map[string]any{"@value": n.ID}},
				nsSM + "value":   []any{map[string]any{"@value": fmt.Sprintf("[(%s,%s)-(%s,%s)]", loc.StartLine, loc.StartCol, loc.EndLine, loc.EndCol)}}})
			for pj := 0; pj < r.Intn(3) && pj < len(n.Props); pj++ {
				pl := fmt.Sprintf("%s/source-map/lexical/element_%d", n.ID, pj+1)
				lex = append(lex, map[string]any{"@id": pl})
				extra = append(extra, map[string]any{"@id": pl,
					nsSM + "element": []any{map[string]any{"@value": n.Props[pj].Pred}},
					nsSM + "value":   []any{map[string]any{"@value": fmt.Sprintf("[(%d,%d)-(%d,%d)]", 500+i, 1, 500+i, 9)}}})
			}
			if r.Intn(2) == 0 { // order of entries inside the source map does not matter
				for a, b := 0, len(lex)-1; a < b; a, b = a+1, b-1 {
					lex[a], lex[b] = lex[b], lex[a]
				}
			}
			if shared {
				sharedLex = append(sharedLex, lex...)
				o[nsSM+"sources"] = []any{map[string]any{"@id": sharedID}}
			} else {
				extra = append(extra, map[string]any{"@id": smID, "@type": []any{nsSM + "SourceMap"}, nsSM + "lexical": lex})
				o[nsSM+"sources"] = []any{map[string]any{"@id": smID}}
			}
		case mode < 8 && len(n.Props) > 0: // property-level entries only: no location for the node
			d.PropOnly[n.ID] = true
			smID := fmt.Sprintf("%s/source-map", n.ID)
			pl := fmt.Sprintf("%s/source-map/lexical/element_0", n.ID)
			extra = append(extra, map[string]any{"@id": pl,
				nsSM + "element": []any{map[string]any{"@value": n.Props[0].Pred}},
				nsSM + "value":   []any{map[string]any{"@value": "[(77,7)-(78,8)]"}}})
			extra = append(extra, map[string]any{"@id": smID, "@type": []any{nsSM + "SourceMap"}, nsSM + "lexical": []any{map[string]any{"@id": pl}}})
			o[nsSM+"sources"] = []any{map[string]any{"@id": smID}}
			if nAdd > 0 && r.Intn(2) == 0 {
				f := d.Files[r.Intn(nAdd)]
				fileElems[f] = append(fileElems[f], n.ID)
			}
		default: // no lexical information at all
		}
		arr = append(arr, o)
	}
	if len(sharedLex) > 0 {
		extra = append(extra, map[string]any{"@id": sharedID, "@type": []any{nsSM + "SourceMap"}, nsSM + "lexical": Shuffled(r, sharedLex)})
	}
	if r.Intn(6) == 0 {
		d.NoFileInformation = true
		arr = append(arr, extra...)
		var kept []any
		for _, x := range arr {
			if m, ok := x.(map[string]any); ok {
				if ts, ok := m["@type"].([]any); ok && len(ts) == 1 && (ts[0] == nsDoc+"LocationInformation") {
					continue
				}
			}
			kept = append(kept, x)
		}
		d.Text = MustJSON(kept)
		return d
	}
	// source information
	si := map[string]any{"@id": EX + "unit#/source-information", "@type": []any{nsDoc + "BaseUnitSourceInformation"},
		nsDoc + "rootLocation": []any{map[string]any{"@value": d.RootFile}}}
	var locs []any
	for k, f := range d.Files {
		lid := fmt.Sprintf("%sunit#/source-information/location_%d", EX, k)
		locs = append(locs, map[string]any{"@id": lid})
		var els []any
		for _, id := range fileElems[f] {
			els = append(els, map[string]any{"@id": id})
		}
		ln := map[string]any{"@id": lid, "@type": []any{nsDoc + "LocationInformation"}, nsDoc + "location": []any{map[string]any{"@value": f}}}
		if len(els) > 0 {
			ln[nsDoc+"elements"] = els
		}
		extra = append(extra, ln)
	}
	if len(locs) > 0 {
		si[nsDoc+"additionalLocations"] = locs
	}
	extra = append(extra, si)
	arr = append(arr, extra...)
	d.Text = MustJSON(arr)
	return d
}

// StripSourceInformation removes the BaseUnitSourceInformation / LocationInformation nodes of a document rendered
// by DecorateWithSourceMaps (lexical entries stay): data with source maps but without file information.
func StripSourceInformation(text string) string {
	v, ok := ReadableJSON(text)
	if !ok {
		return text
	}
	arr, ok := v.([]any)
	if !ok {
		return text
	}
	var out []any
	for _, n := range arr {
		if m, ok := n.(map[string]any); ok {
			drop := false
			if ts, ok := m["@type"].([]any); ok {
				for _, t := range ts {
					if t == nsDoc+"BaseUnitSourceInformation" || t == nsDoc+"LocationInformation" {
						drop = true
					}
				}
			}
			if drop {
				continue
			}
		}
		out = append(out, n)
	}
	return MustJSON(out)
}
