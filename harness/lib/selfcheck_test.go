package lib

import (
	"math/rand"
	"os"
	"reflect"
	"testing"

	"gopkg.in/yaml.v3"
)

// Self-checks of the harness's own models (run by tools/selftest.sh; they never touch the code under test).

func genP(r *rand.Rand, d int) Path {
	if d == 0 || r.Intn(3) == 0 {
		if r.Intn(9) == 0 {
			return TypeStep{}
		}
		return Pred{Prefix: "ex", Local: string(rune('a' + r.Intn(4))), Inverse: r.Intn(3) == 0}
	}
	n := 2 + r.Intn(2)
	items := make([]Path, n)
	for i := range items {
		items[i] = genP(r, d-1)
	}
	if r.Intn(2) == 0 {
		return Seq{items}
	}
	return Alt{items}
}

func TestPathPrintParseRoundTrip(t *testing.T) {
	r := rand.New(rand.NewSource(7))
	for i := 0; i < 5000; i++ {
		p := genP(r, 3)
		for _, s := range []string{PrintPath(p), PrintPathVariant(p, &PathPrintOpts{ExtraParens: func() bool { return r.Intn(3) == 0 }, Space: func() string { return []string{" ", "", "\t "}[r.Intn(3)] }})} {
			q, ok := ParsePathRef(s)
			if !ok || CanonPath(q) != CanonPath(p) {
				t.Fatalf("printed %q from %s, parsed %v", s, CanonPath(p), ok)
			}
		}
	}
	for _, bad := range []string{"", " ex.a", "ex.a /", "ex.a | ", "(ex.a", "ex.a)", "ex.", ".a", "ex", "ex.a ex.b", "ex.a / / ex.b", "ex.a^^", "@typ", "()", "ex.a | | ex.b"} {
		if _, ok := ParsePathRef(bad); ok {
			t.Fatalf("%q accepted by the reference recogniser", bad)
		}
	}
}

func TestDenotation(t *testing.T) {
	g := NewGraph()
	a, b, c := g.AddNode(EX+"a", EX+"T"), g.AddNode(EX+"b"), g.AddNode(EX+"c")
	a.Add(EX+"p", RefV(b.ID), StrV("lit"))
	b.Add(EX+"q", RefV(c.ID), RefV(a.ID))
	c.Add(EX+"p", RefV(b.ID))
	pfx := map[string]string{"ex": EX}
	check := func(path string, want ...string) {
		p, ok := ParsePathRef(path)
		if !ok {
			t.Fatalf("cannot parse %q", path)
		}
		got := Denote(g, p, a.ID, pfx).Keys()
		if !reflect.DeepEqual(got, want) && !(len(got) == 0 && len(want) == 0) {
			t.Fatalf("%s: got %v want %v", path, got, want)
		}
	}
	check("ex.p", "R:"+b.ID, "S:lit")
	check("ex.p / ex.q", "R:"+a.ID, "R:"+c.ID)
	check("ex.p / ex.q | ex.p", "R:"+a.ID, "R:"+c.ID) // ex.p then (ex.q | ex.p): | binds tighter than /
	check("(ex.p / ex.q) | ex.p", "R:"+a.ID, "R:"+b.ID, "R:"+c.ID, "S:lit")
	check("ex.q^", "R:"+b.ID)
	check("ex.p / ex.p^", "R:"+a.ID, "R:"+c.ID)
	check("@type", "S:"+EX+"T")
	check("ex.p / ex.zz")
}

func TestYAMLPrinterRoundTrip(t *testing.T) {
	r := rand.New(rand.NewSource(3))
	hostile := []string{`"`, `'`, "\\", "\n", "\t", "%", "{{", "}}", "#", ": ", " #", "- ", "é", "☃", "‏", "true", "null", "123", "1e3", "~", "", " lead", "trail ", "a: b", "[x]", "{y}", "*a", "&b", "!t", "|", ">", "@", "`", "0x1f", "1_000", "yes", "on"}
	for i := 0; i < 3000; i++ {
		s := ""
		for k := 0; k < 1+r.Intn(4); k++ {
			s += hostile[r.Intn(len(hostile))]
		}
		doc := NewYMap().Set(s+"k", Str(s)).Set("list", StrSeq(s, "x")).Set("n", Int(5)).Set("nested", NewYMap().Set("inner", Str(s)))
		for _, opts := range []*YPrintOpts{{Indent: 2}, {Indent: 4, Flow: func(int, YNode) bool { return true }}, {Indent: 3, Style: func(YScalar) YStyle { return YStyle(r.Intn(4)) }, Comment: func() string { return "c" }, BlankLine: func() bool { return true }, TrailSpace: func() bool { return true }, DocStart: true}} {
			text := PrintYAML(doc, opts)
			var back map[string]any
			if err := yaml.Unmarshal([]byte(text), &back); err != nil {
				t.Fatalf("printed YAML does not parse (%v):\n%s", err, text)
			}
			if back[s+"k"] != s || back["n"] != 5 || back["nested"].(map[string]any)["inner"] != s || back["list"].([]any)[0] != s {
				t.Fatalf("round trip changed %q:\n%s\n%v", s, text, back)
			}
		}
	}
}

func TestVariantsDenoteTheSameGraph(t *testing.T) {
	r := rand.New(rand.NewSource(11))
	for i := 0; i < 300; i++ {
		g := NewGraph()
		n := 1 + r.Intn(6)
		for k := 0; k < n; k++ {
			nd := g.AddNode(EX+string(rune('a'+k)), EX+"T")
			nd.Add(EX+"name", StrV("x"))
			if r.Intn(2) == 0 {
				nd.Add(EX+"tags", StrV("p"), StrV("q"), IntV(3))
			}
			if k > 0 {
				nd.Add(EX+"child", RefV(EX+string(rune('a'+r.Intn(k)))), RefV(EX+"a"))
			}
		}
		want, err := FlattenCanon(g.CanonicalJSONLD())
		if err != nil {
			t.Fatal(err)
		}
		for v := 0; v < 6; v++ {
			text, applied := g.Variant(r)
			got, err := FlattenCanon(text)
			if err != nil || got != want {
				t.Fatalf("variant %v does not denote the same graph (%v):\n%s", applied, err, text)
			}
		}
	}
}

func TestContextByReferenceDenotesTheSameGraph(t *testing.T) {
	g := NewGraph()
	a := g.AddNode(EX+"a", EX+"T", EX+"U")
	a.Add(EX+"name", StrV("x"), IntV(3), BoolV(false))
	a.Add(EX+"c", RefV(EX+"b"))
	g.AddNode(EX+"b", EX+"T").Add(EX+"deep/er", StrV("y"))
	want, err := FlattenCanon(g.CanonicalJSONLD())
	if err != nil {
		t.Fatal(err)
	}
	dir := t.TempDir()
	for _, mode := range []string{"reference", "import"} {
		doc, ctx := g.ContextByReference(dir+"/ctx.jsonld", mode)
		if err := os.WriteFile(dir+"/ctx.jsonld", []byte(ctx), 0o644); err != nil {
			t.Fatal(err)
		}
		got, err := FlattenCanon(doc)
		if err != nil {
			t.Fatalf("%s: %v\n%s", mode, err, doc)
		}
		if got != want {
			t.Fatalf("%s: different graph\n%s\n%s", mode, got, want)
		}
	}
}
