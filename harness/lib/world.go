package lib

import (
	"fmt"
	"math/rand"
)

// ---- building a graph in which every leaf of a formula has a truth value known by construction ----

// LeafGen generates formulas over given leaf indices.
type LeafGen struct {
	R        *rand.Rand
	Atoms    []int
	Quants   []int
	MaxDepth int
}

func (g *LeafGen) leaf() F {
	total := len(g.Atoms) + len(g.Quants)
	i := g.R.Intn(total)
	if i < len(g.Atoms) {
		return FAtom{g.Atoms[i]}
	}
	return FQuant{g.Quants[i-len(g.Atoms)]}
}

func (g *LeafGen) Gen(depth int) F {
	if depth >= g.MaxDepth || g.R.Intn(6) == 0 {
		return g.leaf()
	}
	n := func() []F {
		k := 1 + g.R.Intn(4)
		if k == 1 && g.R.Intn(2) == 0 {
			k = 2
		}
		xs := make([]F, k)
		for i := range xs {
			xs[i] = g.Gen(depth + 1)
		}
		return xs
	}
	switch g.R.Intn(5) {
	case 0:
		return FNot{g.Gen(depth + 1)}
	case 1:
		return FAnd{n()}
	case 2:
		return FOr{n()}
	case 3:
		return FIf{g.Gen(depth + 1), g.Gen(depth + 1)}
	default:
		return FIfElse{g.Gen(depth + 1), g.Gen(depth + 1), g.Gen(depth + 1)}
	}
}

// UsesAllLeaves makes sure every leaf occurs at least once (so that each atom matters syntactically).
func ensureLeaves(f F, atoms, quants []int, r *rand.Rand) F {
	a, q := map[int]bool{}, map[int]bool{}
	Leaves(f, a, q)
	var missing []F
	for _, i := range atoms {
		if !a[i] {
			missing = append(missing, FAtom{i})
		}
	}
	for _, i := range quants {
		if !q[i] {
			missing = append(missing, FQuant{i})
		}
	}
	if len(missing) == 0 {
		return f
	}
	xs := append([]F{f}, missing...)
	if r.Intn(2) == 0 {
		return FAnd{xs}
	}
	return FOr{xs}
}

type WorldSpec struct {
	Base       int // offset of property / node numbering (unique per world inside one profile)
	NAtoms     int // top-level plain atoms (all 2^NAtoms assignments become target nodes)
	NQuants    int // top-level quantified leaves
	QuantDepth int // quantifier nesting depth
	MaxDepth   int // connective depth
	AtomFilter func(AtomKind) bool
	ManyQuants bool // root formula: one flat conjunction / disjunction of all (possibly negated) leaves: many quantified siblings in one validation
	WideOr     bool // root formula: a disjunction of 3-5 conjunctions of 2-3 (possibly negated) leaves, and its dual
}

// NewWorld draws a formula family and builds its graph. Root is the top-level formula over target class ex.T<Base>.
func NewWorld(r *rand.Rand, spec WorldSpec) (*World, F) {
	w := &World{Base: spec.Base, G: NewGraph(), Truth: map[string]map[int]bool{}, Pfx: map[string]string{"ex": EX}, R: r}
	atoms := w.newAtoms(spec.NAtoms, spec.AtomFilter)
	quants := w.newQuants(spec.NQuants, spec.QuantDepth, spec.MaxDepth, spec.AtomFilter)
	gen := &LeafGen{R: r, Atoms: atoms, Quants: quants, MaxDepth: spec.MaxDepth}
	root := w.boundedFormula(gen, atoms, quants, 40, 160)
	if spec.ManyQuants {
		// every quantified expression of a validation gets its own variable, in the order of writing: with 5 to 10
		// siblings the later names of the generator's list are in use (no formula of the random families gets there)
		var lits []F
		for _, a := range atoms {
			lits = append(lits, FAtom{a})
		}
		for _, q := range quants {
			lits = append(lits, FQuant{q})
		}
		r.Shuffle(len(lits), func(i, j int) { lits[i], lits[j] = lits[j], lits[i] })
		for i := range lits {
			if r.Intn(4) == 0 {
				lits[i] = FNot{lits[i]}
			}
		}
		if r.Intn(3) == 0 {
			root = FOr{lits}
		} else {
			root = FAnd{lits}
		}
	}
	if spec.WideOr && len(atoms)+len(quants) >= 2 {
		// cross-product expansion with several composite operands (up to 3^5 branches): the shape in which
		// aliasing or off-by-one slips of the branch expansion show
		for try := 0; try < 50; try++ {
			m := 3 + r.Intn(3)
			var ops []F
			for k := 0; k < m; k++ {
				var conj []F
				for j := 0; j < 2+r.Intn(2); j++ {
					var l F = gen.leaf()
					if r.Intn(3) == 0 {
						l = FNot{l}
					}
					conj = append(conj, l)
				}
				if r.Intn(4) == 0 {
					ops = append(ops, FNot{FOr{conj}}) // a negated disjunction is a conjunction, too
				} else {
					ops = append(ops, FAnd{conj})
				}
			}
			var f F = FOr{ops}
			if r.Intn(3) == 0 {
				f = FNot{FAnd{ops}} // dual: negated conjunction of conjunctions
			}
			f = ensureLeaves(f, atoms, quants, r)
			if b, t := w.Cost(f, false); b <= 100 && t <= 500 {
				root = f
				break
			}
		}
	}
	// all 2^k assignments of the plain atoms
	for m := 0; m < 1<<len(atoms); m++ {
		n := w.newNode(fmt.Sprintf("T%d", spec.Base))
		assign := map[int]bool{}
		for bi, a := range atoms {
			assign[a] = m>>bi&1 == 1
		}
		w.populate(n, atoms, quants, assign)
	}
	// half of the targets are instances of a second class as well (written before or after the first one), and one
	// node is an instance of the second class only: a validation over that class has its own set of targets
	extra := EX + fmt.Sprintf("X%d", spec.Base)
	for _, n := range w.G.OfType(EX + fmt.Sprintf("T%d", spec.Base)) {
		switch r.Intn(4) {
		case 0:
			n.Types = append(n.Types, extra)
		case 1:
			n.Types = append([]string{extra}, n.Types...)
		}
	}
	{
		n := w.newNode(fmt.Sprintf("X%d", spec.Base))
		assign := map[int]bool{}
		for _, a := range atoms {
			assign[a] = r.Intn(2) == 0
		}
		w.populate(n, atoms, quants, assign)
	}
	// decoys: other class / no class; they fail most atoms but are not targets
	d := w.newNode(fmt.Sprintf("D%d", spec.Base))
	_ = d
	w.nextID++
	w.G.AddNode(fmt.Sprintf("%sn%d_%d", EX, w.Base, w.nextID))
	return w, root
}

func (w *World) newAtoms(n int, filter func(AtomKind) bool) []int {
	var idx []int
	for i := 0; i < n; i++ {
		var k AtomKind
		for {
			k = AtomKinds[w.R.Intn(len(AtomKinds))]
			if filter == nil || filter(k) {
				break
			}
		}
		w.Atoms = append(w.Atoms, k)
		idx = append(idx, len(w.Atoms)-1)
	}
	return idx
}

func (w *World) newQuants(n, depth, maxDepth int, filter func(AtomKind) bool) []int {
	var idx []int
	for i := 0; i < n; i++ {
		q := &Quant{Kind: pick(w.R, "nested", "atLeast", "atMost"), N: w.R.Intn(4), Shape: pick(w.R, "pred", "pred", "seq", "alt", "inv"), Twin: -1}
		w.Quants = append(w.Quants, q)
		qi := len(w.Quants) - 1
		idx = append(idx, qi)
		tag := fmt.Sprintf("%dx%d", w.Base, qi)
		switch q.Shape {
		case "pred":
			q.Path = Pred{Prefix: "ex", Local: "c" + tag}
		case "seq":
			q.Path = Seq{[]Path{Pred{Prefix: "ex", Local: "c" + tag}, Pred{Prefix: "ex", Local: "d" + tag}}}
		case "alt":
			q.Path = Alt{[]Path{Pred{Prefix: "ex", Local: "c" + tag}, Pred{Prefix: "ex", Local: "e" + tag}}}
		case "inv":
			q.Path = Pred{Prefix: "ex", Local: "r" + tag, Inverse: true}
		}
		q.PathStr = PrintPath(q.Path)
		q.InnerAtoms = w.newAtoms(1+w.R.Intn(3), filter)
		if depth > 1 && w.R.Intn(2) == 0 {
			q.InnerQuants = w.newQuants(1, depth-1, maxDepth, filter)
		}
		gen := &LeafGen{R: w.R, Atoms: q.InnerAtoms, Quants: q.InnerQuants, MaxDepth: maxDepth - 1}
		q.Inner = w.boundedFormula(gen, q.InnerAtoms, q.InnerQuants, 8, 30)
		if len(q.InnerAtoms)+len(q.InnerQuants) >= 2 && w.R.Intn(3) == 0 {
			// the body is directly a disjunction (or its dual) with composite operands: the reached nodes fail it
			// in different ways, the sets of failing nodes of the expanded branches must be united
			var ops []F
			for k := 0; k < 2+w.R.Intn(2); k++ {
				var conj []F
				for j := 0; j < 1+w.R.Intn(3); j++ {
					var l F = gen.leaf()
					if w.R.Intn(3) == 0 {
						l = FNot{l}
					}
					conj = append(conj, l)
				}
				if len(conj) == 1 {
					ops = append(ops, conj[0])
				} else {
					ops = append(ops, FAnd{conj})
				}
			}
			var f F = FOr{ops}
			if w.R.Intn(3) == 0 {
				f = FNot{FAnd{ops}}
			}
			if b, t := w.Cost(f, false); b <= 30 && t <= 120 {
				q.Inner = ensureLeaves(f, q.InnerAtoms, q.InnerQuants, w.R)
			}
		}
		if w.R.Intn(3) == 0 {
			// a twin over the same path and the same reached nodes: e.g. atLeast 1 and atMost 3 of the same children
			kinds := []string{"nested", "atLeast", "atMost"}
			var other []string
			for _, k := range kinds {
				if k != q.Kind {
					other = append(other, k)
				}
			}
			t := &Quant{Kind: pick(w.R, other...), N: w.R.Intn(4), Shape: q.Shape, Path: q.Path, PathStr: q.PathStr,
				InnerAtoms: q.InnerAtoms, InnerQuants: q.InnerQuants, Twin: qi}
			if w.R.Intn(2) == 0 {
				t.Inner = q.Inner
			} else {
				t.Inner = w.boundedFormula(gen, q.InnerAtoms, q.InnerQuants, 8, 30)
			}
			w.Quants = append(w.Quants, t)
			idx = append(idx, len(w.Quants)-1)
		}
	}
	return idx
}

func (w *World) populate(n *Node, atoms, quants []int, assign map[int]bool) {
	if w.Truth[n.ID] == nil {
		w.Truth[n.ID] = map[int]bool{}
	}
	for _, a := range atoms {
		w.Atoms[a].Assign(n, w.AtomProp(a), assign[a], w.R)
		w.Truth[n.ID][a] = assign[a]
	}
	for _, qi := range quants {
		q := w.Quants[qi]
		if q.Twin >= 0 {
			continue // children were created for the quantifier it shares the path with
		}
		tag := fmt.Sprintf("%dx%d", w.Base, qi)
		c := w.R.Intn(5)
		for j := 0; j < c; j++ {
			child := w.newNode(fmt.Sprintf("C%d", w.Base))
			ca := map[int]bool{}
			for _, a := range q.InnerAtoms {
				ca[a] = w.R.Intn(2) == 0
			}
			w.populate(child, q.InnerAtoms, q.InnerQuants, ca)
			switch q.Shape {
			case "pred":
				n.Add(EX+"c"+tag, RefV(child.ID))
			case "seq":
				mid := w.newNode(fmt.Sprintf("M%d", w.Base))
				n.Add(EX+"c"+tag, RefV(mid.ID))
				mid.Add(EX+"d"+tag, RefV(child.ID))
			case "alt":
				switch w.R.Intn(3) {
				case 0:
					n.Add(EX+"c"+tag, RefV(child.ID))
				case 1:
					n.Add(EX+"e"+tag, RefV(child.ID))
				default: // reachable by both alternatives: one node
					n.Add(EX+"c"+tag, RefV(child.ID))
					n.Add(EX+"e"+tag, RefV(child.ID))
				}
			case "inv":
				child.Add(EX+"r"+tag, RefV(n.ID))
			}
		}
	}
}

// boundedFormula draws formulas until the translator's branch expansion stays within the stated bound
// (maxBranches branches, maxTotal leaf occurrences), in both polarities since rewrites may negate it.
func (w *World) boundedFormula(gen *LeafGen, atoms, quants []int, maxBranches, maxTotal float64) F {
	for try := 0; ; try++ {
		f := ensureLeaves(gen.Gen(0), atoms, quants, w.R)
		b, t := w.Cost(f, false)
		nb, nt := w.Cost(f, true)
		if b <= maxBranches && t <= maxTotal && nb <= maxBranches*4 && nt <= maxTotal*4 {
			return f
		}
		if try > 200 {
			return ensureLeaves(gen.leaf(), atoms, quants, w.R)
		}
	}
}

// NewSiblingWorld builds one validation made of n quantified expressions written one after the other, each over its
// own path and with a body of one atom (sibling j: kind kinds[(j+offset) mod len]). Every quantified expression of
// a validation is translated with its own variable, handed out in the order of writing: the sweep puts every kind of
// atomic constraint at every position of that order. Target k (k < n) falsifies exactly sibling k, target n none,
// so that a wrong verdict of one sibling is not masked by another (disj: the siblings are the operands of one `or`,
// target k satisfies exactly sibling k and target n none).
func NewSiblingWorld(r *rand.Rand, base, n, offset int, kinds []AtomKind, disj bool) (*World, F) {
	w := &World{Base: base, G: NewGraph(), Truth: map[string]map[int]bool{}, Pfx: map[string]string{"ex": EX}, R: r}
	neg := make([]bool, n)      // the sibling is written under `not`
	innerNeg := make([]bool, n) // the body is the negated atom
	var lits []F
	for j := 0; j < n; j++ {
		w.Atoms = append(w.Atoms, kinds[(j+offset)%len(kinds)])
		neg[j], innerNeg[j] = r.Intn(4) == 0, r.Intn(4) == 0
		q := &Quant{Kind: pick(r, "nested", "nested", "atLeast"), N: 1, Shape: "pred", Twin: -1, InnerAtoms: []int{j}}
		q.Path = Pred{Prefix: "ex", Local: fmt.Sprintf("c%dx%d", base, j)}
		q.PathStr = PrintPath(q.Path)
		q.Inner = FAtom{j}
		if innerNeg[j] {
			q.Inner = FNot{FAtom{j}}
		}
		w.Quants = append(w.Quants, q)
		var l F = FQuant{j}
		if neg[j] {
			l = FNot{l}
		}
		lits = append(lits, l)
	}
	for k := 0; k <= n; k++ {
		t := w.newNode(fmt.Sprintf("T%d", base))
		w.Truth[t.ID] = map[int]bool{}
		for j := 0; j < n; j++ {
			litTruth := j != k // conjunction: target k falsifies exactly sibling k, target n none
			if disj {
				litTruth = j == k // disjunction: target k satisfies exactly sibling k, target n none (the only one reported)
			}
			quantTruth := litTruth != neg[j]
			var bodies []bool // truth of the body on each reached node
			switch w.Quants[j].Kind {
			case "nested":
				if quantTruth {
					bodies = []bool{true, true}[:1+r.Intn(2)]
				} else {
					bodies = []bool{true, false}
				}
			default: // atLeast 1
				if quantTruth {
					bodies = []bool{true, false}[:1+r.Intn(2)]
				} else {
					bodies = []bool{false, false}[:r.Intn(3)]
				}
			}
			r.Shuffle(len(bodies), func(a, b int) { bodies[a], bodies[b] = bodies[b], bodies[a] })
			for _, bt := range bodies {
				c := w.newNode(fmt.Sprintf("C%d", base))
				at := bt != innerNeg[j]
				w.Atoms[j].Assign(c, w.AtomProp(j), at, r)
				w.Truth[c.ID] = map[int]bool{j: at}
				t.Add(fmt.Sprintf("%sc%dx%d", EX, base, j), RefV(c.ID))
			}
		}
	}
	if disj {
		return w, FOr{lits}
	}
	return w, FAnd{lits}
}
