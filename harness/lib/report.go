package lib

import (
	"encoding/json"
	"fmt"
	"sort"
	"strings"
)

// ---- reading reports at the client boundary ----

type Result struct {
	Severity string // Violation | Warning | Info
	Name     string // sourceShapeName
	Focus    string
	Message  string
	Raw      map[string]any
}

func (r Result) Key() string {
	return r.Severity + "\x00" + r.Name + "\x00" + r.Focus + "\x00" + r.Message
}

type Report struct {
	Conforms    bool
	ProfileName string
	DateCreated *string
	HasResult   bool // the key "result" is present
	Results     []Result
	Root        []any
	Node        map[string]any // the validation-report node
}

// ParseReport reads the report text. It demands only what C12's first sentence states; finer checks are in CheckWellFormed.
func ParseReport(text string) (*Report, error) {
	var root any
	dec := json.NewDecoder(strings.NewReader(text))
	dec.UseNumber()
	if err := dec.Decode(&root); err != nil {
		return nil, fmt.Errorf("report is not JSON: %v", err)
	}
	var extra any
	if err := dec.Decode(&extra); err == nil {
		return nil, fmt.Errorf("report has trailing content after the JSON document")
	}
	arr, ok := root.([]any)
	if !ok || len(arr) != 1 {
		return nil, fmt.Errorf("report is not an array holding one dialect instance")
	}
	inst, ok := arr[0].(map[string]any)
	if !ok {
		return nil, fmt.Errorf("dialect instance is not an object")
	}
	enc, ok := inst["doc:encodes"].([]any)
	if !ok || len(enc) != 1 {
		return nil, fmt.Errorf("doc:encodes does not hold exactly one node")
	}
	node, ok := enc[0].(map[string]any)
	if !ok {
		return nil, fmt.Errorf("encoded node is not an object")
	}
	r := &Report{Root: arr, Node: node}
	c, ok := node["conforms"].(bool)
	if !ok {
		return nil, fmt.Errorf("conforms missing or not boolean")
	}
	r.Conforms = c
	pn, ok := node["profileName"].(string)
	if !ok {
		return nil, fmt.Errorf("profileName missing or not a string")
	}
	r.ProfileName = pn
	if d, ok := node["dateCreated"]; ok {
		s, ok := d.(string)
		if !ok {
			return nil, fmt.Errorf("dateCreated is not a string")
		}
		r.DateCreated = &s
	}
	if rs, ok := node["result"]; ok {
		r.HasResult = true
		list, ok := rs.([]any)
		if !ok {
			return nil, fmt.Errorf("result is not an array")
		}
		for i, x := range list {
			m, ok := x.(map[string]any)
			if !ok {
				return nil, fmt.Errorf("result %d is not an object", i)
			}
			res := Result{Raw: m}
			sev, _ := m["resultSeverity"].(string)
			res.Severity = strings.TrimPrefix(sev, "http://www.w3.org/ns/shacl#")
			res.Name, _ = m["sourceShapeName"].(string)
			res.Focus, _ = m["focusNode"].(string)
			res.Message, _ = m["resultMessage"].(string)
			r.Results = append(r.Results, res)
		}
	}
	return r, nil
}

// ResultSet is the set {(severity, validation, focus, message)}.
func (r *Report) ResultSet() []string {
	set := map[string]struct{}{}
	for _, x := range r.Results {
		set[x.Key()] = struct{}{}
	}
	return SortedKeys(set)
}

// FocusByName: validation name -> sorted distinct focus nodes.
func (r *Report) FocusByName() map[string][]string {
	tmp := map[string]map[string]struct{}{}
	for _, x := range r.Results {
		if tmp[x.Name] == nil {
			tmp[x.Name] = map[string]struct{}{}
		}
		tmp[x.Name][x.Focus] = struct{}{}
	}
	out := map[string][]string{}
	for k, v := range tmp {
		out[k] = SortedKeys(v)
	}
	return out
}

// Reported tells whether (name, focus) has at least one result.
func (r *Report) Reported(name, focus string) bool {
	for _, x := range r.Results {
		if x.Name == name && x.Focus == focus {
			return true
		}
	}
	return false
}

// ---- C12: structural well-formedness, checked on every report any workload produces ----

type WFInput struct {
	NodeIDs     map[string]bool // @ids of the input graph (nil: focus grounding not checked)
	Validations map[string]bool // validation names defined in the profile (nil: names not checked)
}

// CheckWellFormed returns the list of well-formedness defects of a report (empty when well formed).
func CheckWellFormed(r *Report, in WFInput) []string {
	var defects []string
	add := func(f string, a ...any) {
		if len(defects) < 20 {
			defects = append(defects, fmt.Sprintf(f, a...))
		}
	}
	// every node with @type has an @id; all @ids distinct
	ids := map[string]int{}
	typed := 0
	var walk func(x any, where string)
	walk = func(x any, where string) {
		switch v := x.(type) {
		case map[string]any:
			_, hasType := v["@type"]
			id, hasID := v["@id"]
			if hasType {
				typed++
				if !hasID {
					add("typed node without @id at %s", where)
				}
			}
			if hasID {
				s, ok := id.(string)
				if !ok || s == "" {
					add("@id is not a non-empty string at %s", where)
				} else if len(v) > 1 {
					// an object holding nothing but "@id" is a reference to a node (a link quoted as a value), not a node
					ids[s]++
				}
			}
			for _, k := range SortedKeys(v) {
				if k == "@context" {
					continue
				}
				walk(v[k], where+"/"+k)
			}
		case []any:
			for i, e := range v {
				walk(e, fmt.Sprintf("%s[%d]", where, i))
			}
		}
	}
	walk(any(r.Root), "")
	dups := []string{}
	for id, n := range ids {
		if n > 1 {
			dups = append(dups, fmt.Sprintf("%s x%d", id, n))
		}
	}
	sort.Strings(dups)
	for _, d := range dups {
		add("duplicate @id %s", d)
	}
	for i, res := range r.Results {
		where := fmt.Sprintf("result[%d]", i)
		checkResultNode(res.Raw, where, false, in, add)
		if res.Severity != "Violation" && res.Severity != "Warning" && res.Severity != "Info" {
			add("%s: resultSeverity %q is not a SHACL severity", where, res.Raw["resultSeverity"])
		}
	}
	return defects
}

func checkResultNode(m map[string]any, where string, sub bool, in WFInput, add func(string, ...any)) {
	focus, ok := m["focusNode"].(string)
	if !ok || focus == "" {
		add("%s: focusNode is not exactly one node id (%v)", where, m["focusNode"])
	} else if in.NodeIDs != nil && !in.NodeIDs[focus] {
		add("%s: focusNode %q is not a node of the input graph", where, focus)
	}
	name, ok := m["sourceShapeName"].(string)
	if !ok {
		add("%s: sourceShapeName missing", where)
	} else if sub {
		if name != "nested" {
			add("%s: sub-result sourceShapeName %q is not `nested`", where, name)
		}
	} else if in.Validations != nil && !in.Validations[name] {
		add("%s: sourceShapeName %q is not a validation of the profile", where, name)
	}
	msg, ok := m["resultMessage"].(string)
	if !ok || msg == "" {
		add("%s: empty resultMessage", where)
	}
	tr, ok := m["trace"].([]any)
	if !ok || len(tr) == 0 {
		add("%s: empty trace", where)
		return
	}
	for j, t := range tr {
		tw := fmt.Sprintf("%s.trace[%d]", where, j)
		tm, ok := t.(map[string]any)
		if !ok {
			add("%s: not an object", tw)
			continue
		}
		if c, ok := tm["component"].(string); !ok || c == "" {
			add("%s: component missing", tw)
		}
		if _, ok := tm["resultPath"].(string); !ok {
			add("%s: resultPath missing", tw)
		}
		if tv, ok := tm["traceValue"].(map[string]any); ok {
			if subs, ok := tv["subResult"].([]any); ok {
				for k, s := range subs {
					if sm, ok := s.(map[string]any); ok {
						checkResultNode(sm, fmt.Sprintf("%s.subResult[%d]", tw, k), true, in, add)
					} else {
						add("%s.subResult[%d]: not an object", tw, k)
					}
				}
			}
		}
	}
}

// CountTypedNodes returns how many typed nodes and distinct ids a report holds (evidence).
func CountTypedNodes(r *Report) (typed int, maxDepth int) {
	var walk func(x any, d int)
	walk = func(x any, d int) {
		switch v := x.(type) {
		case map[string]any:
			if _, ok := v["@type"]; ok {
				typed++
				if d > maxDepth {
					maxDepth = d
				}
				d++
			}
			for k, e := range v {
				if k != "@context" {
					walk(e, d)
				}
			}
		case []any:
			for _, e := range v {
				walk(e, d)
			}
		}
	}
	walk(any(r.Root), 0)
	return
}
