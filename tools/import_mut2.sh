#!/bin/bash
# usage: import_mut2.sh <srcdir> <dstname> <prop> "<confirm result>"
set -eu
SRC=$1; NAME=$2; P=$3; RES=${4:-}
DST=/verif/seeded/$NAME
mkdir -p $DST
cp $SRC/patch.diff $DST/
for f in $SRC/*_test.go $SRC/*.sh $SRC/notes.md $SRC/*.yaml $SRC/*.raml; do [ -e "$f" ] && cp "$f" $DST/ || true; done
python3 - "$P" "$NAME" "$RES" <<'PY'
import json,sys,os
p,name,res=sys.argv[1:4]
dst=f"/verif/seeded/{name}"
meta={"breaks_property":p,"origin":"independent sub-agent (round 2) given only the property text, generic guidance on kinds of regressions, and a scratch worktree (no access to /verif)",
 "needs_to_manifest":"see notes.md",
 "confirmed_by_me":{"ran":"tools/confirm_mut.sh in a scratch worktree: git apply, go build ./..., full existing suite, demo with and without the change","result":res},
 "base_commit":os.popen("git -C /repo rev-parse --short HEAD").read().strip()}
json.dump(meta,open(f"{dst}/meta.json","w"),indent=1)
PY
