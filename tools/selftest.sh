#!/bin/bash
# Self-checks of the harness's reference models and printers (they do not exercise the code under test).
cd "$(dirname "$0")/../harness" && GOFLAGS=-mod=mod GOPROXY=off GOSUMDB=off GOTOOLCHAIN=local go test -tags verif -count=1 ./lib/
