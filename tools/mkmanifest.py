#!/usr/bin/env python3
"""Regenerates /verif/MANIFEST.json from tools/manifest_table.json (single source of truth).
Properties not present in the table's "checks" are listed under not_applicable with the reason
given in the table's "not_claimed" map."""
import json, os, sys
root = os.path.dirname(os.path.dirname(os.path.abspath(__file__)))
tab = json.load(open(os.path.join(root, "tools", "manifest_table.json")))
props = [json.loads(l)["id"] for l in open(os.path.join(root, "properties.jsonl"))]
checks = []
for pid in props:
    c = tab["checks"].get(pid)
    if not c:
        continue
    checks.append({
        "property_id": pid,
        "quick_cmd": f"./check {pid} quick",
        "thorough_cmd": f"./check {pid} thorough",
        "evidence_file": f"/verif/evidence/{pid}.json",
        "replay_cmd_template": f"./check {pid} replay {{path}}",
        "engine": c.get("engine", "vcheck"),
        "level_claimed": {"category": c["category"], "text": c["text"], "design_ref": c.get("design_ref", f"DESIGN.md §5 {pid}")},
        "level_note": c["note"],
        "technique": c["technique"],
    })
na = [{"property_id": pid, "reason": tab["not_claimed"].get(pid, "check not built yet; see DESIGN.md §5")} for pid in props if pid not in tab["checks"]]
m = {
    "version": 1,
    "setup_cmd": tab["setup_cmd"],
    "hooks": tab["hooks"],
    "engines": tab["engines"],
    "checks": checks,
    "notes": tab["notes"],
    "not_applicable": na,
}
json.dump(m, open(os.path.join(root, "MANIFEST.json"), "w"), indent=1)
print("checks:", len(checks), "not_applicable:", len(na))
