#!/usr/bin/env python3
"""usage: mkresults.py <log with RESULT lines> [more logs...] > seeded/RESULTS.md
Later lines for the same (change, check) replace earlier ones (re-runs after a check was changed)."""
import re, sys
rows = {}
order = []
for f in sys.argv[1:]:
    for line in open(f, errors="replace"):
        m = re.match(r"RESULT (\S+) (C\d\d) rc=(\d+) keys=\[(.*?)\] first=\s*(?:what:\s*)?(.*)", line.strip())
        if not m:
            continue
        name, chk, rc, keys, first = m.groups()
        k = (name, chk)
        if k not in rows:
            order.append(k)
        rows[k] = (rc, keys.strip(" ,"), first.replace("|", "¦")[:120])
print("# Seeded changes vs. the checks (quick tier, seed 1)\n")
print("Produced by `tools/sweep_all_own.sh` and `tools/mkresults.py` (+ re-runs of rows whose check was changed afterwards): each change is applied to a scratch copy of /repo (`tools/sweep_mut.sh`, never /repo itself), the named check is run; exit 1 = detected, 0 = silent.")
print("Rows `rev-*` are the reverse patches of the fix commits. A change that is silent under the check of its own property is listed again under the sibling check that catches it (DESIGN §12).\n")
print("| change | check | exit | violation kinds (count) | first witness |\n|---|---|---|---|---|")
det = set(); allc = set()
for (name, chk) in order:
    rc, keys, first = rows[(name, chk)]
    print(f"| {name} | {chk} | {rc} | {keys} | {first} |")
    allc.add(name)
    if rc == "1":
        det.add(name)
print(f"\n{len(allc)} changes, {len(det)} detected by at least one listed check; not detected: {sorted(allc - det)}")
