#!/bin/bash
# usage: round5.sh <PROP>   imports /tmp/mut5/<PROP>/_out/m1,m2 as seeded/<PROP>-m9,m10, confirms, sweeps with the own check
set -u
P=$1
cd /verif
for k in 1 2; do
  SRC=/tmp/mut5/$P/_out/m$k; NAME=$P-m$((8+k))
  [ -f $SRC/patch.diff ] || { echo "RESULT $NAME missing"; continue; }
  W=/tmp/conf_$NAME; rm -rf $W; git -C /repo worktree add --detach -q $W HEAD
  mkdir -p /tmp/r5/$NAME; cp $SRC/* /tmp/r5/$NAME/ 2>/dev/null
  res=$(tools/confirm_mut.sh $W /tmp/r5/$NAME pkg 2>&1 | grep '^RESULT' | sed 's/^RESULT [^ ]* //')
  git -C /repo worktree remove --force $W
  rm -f /tmp/r5/$NAME/confirm_*.log
  tools/import_mut2.sh /tmp/r5/$NAME $NAME $P "$res"
  python3 - $NAME <<'PY'
import json,re,sys
n=sys.argv[1]; m=f'/verif/seeded/{n}/meta.json'
d=json.load(open(m))
d['origin']=d['origin'].replace('(round 2)','(round 5)')
try:
    notes=open(f'/verif/seeded/{n}/notes.md').read()
    mm=re.search(r'#+ [^\n]*(needed|manifest|trigger)[^\n]*\n(.*?)(\n#+ |\Z)',notes,re.S|re.I)
    if mm: d['needs_to_manifest']=' '.join(mm.group(2).split())[:900]
except Exception as e: pass
json.dump(d,open(m,'w'),indent=1)
PY
  echo "CONFIRM $NAME $res"
  tools/sweep_mut.sh $NAME seeded/$NAME/patch.diff $P 2>&1 | grep RESULT
done
