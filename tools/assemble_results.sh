#!/bin/bash
# usage: assemble_results.sh <final sweep log> [extra logs...]  -> writes seeded/RESULTS.md (keeps the table of the earlier complete sweep)
cd "$(dirname "$0")/.."
OLD=seeded/RESULTS.rounds1-3.md
[ -f $OLD ] || git show 5fc5bf4:seeded/RESULTS.md > $OLD 2>/dev/null || cp seeded/RESULTS.md $OLD
{
  echo "# Seeded changes vs. the checks (quick tier, seed 1)"
  echo
  echo "Two sweeps. Part 1: rounds 3b, 4, 5 and every fix revert against the checks as committed at the end (\`tools/sweep_final.sh\`)."
  echo "Part 2: the complete sweep of rounds 1-3 made at commit 5fc5bf4 (\`tools/sweep_all_own.sh\`); the checks have only been extended since."
  echo "Each change is applied to a scratch copy of /repo (\`tools/sweep_mut.sh\`, never /repo itself); exit 1 = detected, 0 = silent."
  echo "A change that is silent under the check of its own property is listed again under the sibling check that catches it (DESIGN §12)."
  echo
  echo "## Part 1 - rounds 3b, 4, 5 and the fix reverts, final checks"
  echo
  python3 tools/mkresults.py "$@" | sed -n '/^| change/,$p'
  echo
  echo "## Part 2 - rounds 1-3 (commit 5fc5bf4)"
  echo
  sed -n '/^| change/,$p' $OLD
} > seeded/RESULTS.md
