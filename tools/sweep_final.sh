#!/bin/bash
# Rounds 3b, 4 and 5 of the seeded changes and the fix reverts against the checks as they are now (rounds 1-3 were
# swept completely at commit 5fc5bf4, see seeded/RESULTS.md); plus the sibling checks for changes whose trigger is
# another property's subject.
cd "$(dirname "$0")/.."
for d in seeded/C*-m7 seeded/C*-m8 seeded/C*-m9 seeded/C*-m10 seeded/C04-m[56] seeded/C06-m[56] seeded/C07-m[56] seeded/C08-m[56] seeded/C10-m[56] seeded/C15-m[56] seeded/C16-m[56] seeded/C18-m[56]; do
  n=$(basename $d); id=${n%%-*}; tools/sweep_mut.sh $n $d/patch.diff $id
done
for f in seeded/fix-reverts/*.diff; do n=$(basename $f .diff); id=$(echo $n | cut -c1-3); tools/sweep_mut.sh rev-$n $f $id; done
tools/sweep_mut.sh C12-m8 seeded/C12-m8/patch.diff C10
tools/sweep_mut.sh C07-m10 seeded/C07-m10/patch.diff C18
tools/sweep_mut.sh C15-m5 seeded/C15-m5/patch.diff C01
tools/sweep_mut.sh C17-m5 seeded/C17-m5/patch.diff C07
tools/sweep_mut.sh rev-C17b-with-C14 seeded/fix-reverts/C17b-with-C14.diff C17 C12 C14
