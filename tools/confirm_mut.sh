#!/bin/bash
# usage: confirm_mut.sh <worktree> <mN dir> [demo package dir, default pkg] 
# Confirms independently: patch applies, builds, full suite passes, demo fails with the patch, passes without.
set -u
export GOFLAGS=-mod=mod GOPROXY=off GOSUMDB=off GOTOOLCHAIN=local
WT=$1; M=$2; PKG=${3:-pkg}
cd "$WT" || exit 2
git checkout -q -- . ; git clean -fdq -e _out
git apply "$M/patch.diff" || { echo "RESULT apply=FAIL"; exit 1; }
go build ./... || { echo "RESULT build=FAIL"; git checkout -q -- .; exit 1; }
SUITE=PASS; go test -vet=off -count=1 ./... > "$M/confirm_suite.log" 2>&1 || SUITE=FAIL
for f in "$M"/*_test.go; do [ -e "$f" ] && cp "$f" "$PKG/zz_$(basename "$f")"; done
WITH=PASS; go test -vet=off -count=1 "./$PKG/" > "$M/confirm_demo_with.log" 2>&1 || WITH=FAIL
git checkout -q -- .
WITHOUT=PASS; go test -vet=off -count=1 "./$PKG/" > "$M/confirm_demo_without.log" 2>&1 || WITHOUT=FAIL
rm -f "$PKG"/zz_*_test.go
git checkout -q -- . ; git clean -fdq -e _out
echo "RESULT $M suite=$SUITE demo_with_change=$WITH demo_without_change=$WITHOUT"
