#!/bin/bash
# usage: round6.sh <PROP>   imports /tmp/mut6/<PROP>/_out/m1 as seeded/<PROP>-m11, confirms, sweeps with the own check
set -u
P=$1
cd /verif
for k in 1; do
  SRC=/tmp/mut6/$P/_out/m$k; NAME=$P-m$((10+k))
  [ -f $SRC/patch.diff ] || { echo "RESULT $NAME missing"; continue; }
  W=/tmp/conf_$NAME; rm -rf $W; git -C /repo worktree add --detach -q $W HEAD
  mkdir -p /tmp/r6/$NAME; cp $SRC/* /tmp/r6/$NAME/ 2>/dev/null
  res=$(tools/confirm_mut.sh $W /tmp/r6/$NAME pkg 2>&1 | grep '^RESULT' | sed 's/^RESULT [^ ]* //')
  git -C /repo worktree remove --force $W
  rm -f /tmp/r6/$NAME/confirm_*.log
  tools/import_mut2.sh /tmp/r6/$NAME $NAME $P "$res"
  python3 - $NAME <<'PY'
import json,re,sys
n=sys.argv[1]; m=f'/verif/seeded/{n}/meta.json'
d=json.load(open(m))
d['origin']=d['origin'].replace('(round 2)','(round 6)')
try:
    notes=open(f'/verif/seeded/{n}/notes.md').read()
    mm=re.search(r'#+ [^\n]*(needed|manifest|trigger)[^\n]*\n(.*?)(\n#+ |\Z)',notes,re.S|re.I)
    if mm: d['needs_to_manifest']=' '.join(mm.group(2).split())[:900]
except Exception as e: pass
json.dump(d,open(m,'w'),indent=1)
PY
  echo "CONFIRM $NAME $res"
  tools/sweep_mut.sh $NAME seeded/$NAME/patch.diff $P 2>&1 | grep RESULT
done
