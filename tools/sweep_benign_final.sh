#!/bin/bash
cd "$(dirname "$0")/.."
for n in B1 B3 B5 B7 B9 B10; do f=$(ls seeded/benign/$n-*.diff | head -1); tools/sweep_mut.sh benign-$(basename $f .diff) $f C01 C02 C03 C04 C05 C06 C07 C08 C09 C10 C11 C12 C13 C14 C15 C16 C17 C18; done
