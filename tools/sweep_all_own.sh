#!/bin/bash
# Every seeded change and every fix revert against the check of the property it breaks (plus named sibling checks).
cd "$(dirname "$0")/.."
for d in seeded/C*-m*; do n=$(basename $d); id=${n%%-*}; tools/sweep_mut.sh $n $d/patch.diff $id; done
for f in seeded/fix-reverts/*.diff; do n=$(basename $f .diff); id=$(echo $n | cut -c1-3); tools/sweep_mut.sh rev-$n $f $id; done
# changes whose trigger is concurrency or cross-profile state are (also) the business of sibling checks
tools/sweep_mut.sh C02-m4 seeded/C02-m4/patch.diff C10
tools/sweep_mut.sh C12-m4 seeded/C12-m4/patch.diff C10
tools/sweep_mut.sh C05-m4 seeded/C05-m4/patch.diff C09
tools/sweep_mut.sh C15-m4 seeded/C15-m4/patch.diff C01 C06
tools/sweep_mut.sh C07-m3 seeded/C07-m3/patch.diff C03
tools/sweep_mut.sh C17-m5 seeded/C17-m5/patch.diff C07
tools/sweep_mut.sh rev-C17b-with-C14 seeded/fix-reverts/C17b-with-C14.diff C17 C12 C14
tools/sweep_mut.sh C15-m5 seeded/C15-m5/patch.diff C01
tools/sweep_mut.sh C12-m8 seeded/C12-m8/patch.diff C10
tools/sweep_mut.sh C07-m10 seeded/C07-m10/patch.diff C18
