#!/bin/bash
# usage: import_mut.sh <PROP> <mN> "<confirm RESULT line>"  — copies a confirmed mutation from /tmp/mut/<PROP>/_out/<mN> to /verif/seeded/<PROP>-<mN>/
set -eu
P=$1; M=$2; RES=${3:-}
SRC=/tmp/mut/$P/_out/$M; DST=/verif/seeded/$P-$M
mkdir -p $DST
cp $SRC/patch.diff $DST/
for f in $SRC/*_test.go $SRC/*.go $SRC/*.sh $SRC/notes.md; do [ -e "$f" ] && cp "$f" $DST/ || true; done
python3 - "$P" "$M" "$RES" <<'PY'
import json,sys,os
p,m,res=sys.argv[1:4]
dst=f"/verif/seeded/{p}-{m}"
notes=open(f"{dst}/notes.md").read() if os.path.exists(f"{dst}/notes.md") else ""
meta={"breaks_property":p,"origin":"independent sub-agent given only the property text and a scratch worktree (no access to /verif)",
 "needs_to_manifest":"see notes.md (section on what is needed to manifest)",
 "confirmed_by_me":{"ran":"tools/confirm_mut.sh in a scratch worktree: git apply, go build ./..., full existing suite, demo with and without the change","result":res},
 "base_commit":os.popen("git -C /repo rev-parse --short HEAD").read().strip()}
json.dump(meta,open(f"{dst}/meta.json","w"),indent=1)
PY
echo imported $DST
