#!/bin/bash
# usage: trymut.sh <patch.diff> <ID> [ID...]   — applies the patch to /repo, runs the checks (TIER=quick default), reverts (also on interruption).
set -u
P=$1; shift
cd /repo && git diff --quiet || { echo "/repo not clean"; exit 2; }
trap 'git -C /repo checkout -- . ; git -C /repo clean -fdq' EXIT INT TERM
git -C /repo apply "$P" || { echo "patch does not apply"; exit 2; }
for id in "$@"; do
  out=$(cd /verif && timeout 1500 ./check $id ${TIER:-quick} 2>&1); rc=$?
  echo "== $id rc=$rc $(echo "$out" | grep -c '^VIOLATION') violation lines; first: $(echo "$out" | grep -m1 -A1 '^VIOLATION' | tr '\n' ' ' | cut -c1-300)"
done
