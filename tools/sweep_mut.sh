#!/bin/bash
# usage: sweep_mut.sh <name> <patch.diff> <ID> [ID...]
# Runs checks against a scratch copy of /repo with the patch applied (never touches /repo, /verif/evidence or /verif/replay).
set -u
VROOT=$(cd "$(dirname "$0")/.." && pwd)
NAME=$1; PATCH=$2; shift; shift
W=/tmp/sweep/$NAME
rm -rf $W; mkdir -p /tmp/sweep
git -C /repo worktree add --detach -q $W HEAD || exit 2
( cd $W && git apply "$(cd $VROOT && realpath "$PATCH")" ) || { echo "$NAME: patch does not apply"; git -C /repo worktree remove --force $W; exit 2; }
mkdir -p $W/_verifout
for id in "$@"; do
  out=$(cd $VROOT && VERIF_REPO=$W VERIF_OUTROOT=$W/_verifout timeout 3000 ./check $id ${TIER:-quick} 2>&1); rc=$?
  keys=$(echo "$out" | grep 'violations_by_key' | sed 's/ *violations_by_key://' | tr -s ' ' | tr '\n' ',' )
  echo "RESULT $NAME $id rc=$rc keys=[$keys] first=$(echo "$out" | grep -m1 -A1 '^VIOLATION' | tail -1 | cut -c1-220)"
done
git -C /repo worktree remove --force $W; git -C /repo worktree prune
TAG=$(echo "$W" | tr -c 'A-Za-z0-9' '_')
rm -f $VROOT/bin/*.${TAG}* $VROOT/bin/*${TAG} $VROOT/harness/go.${TAG}.mod $VROOT/harness/go.${TAG}.sum
