#!/bin/bash
cd "$(dirname "$0")/.."
for f in seeded/benign/*.diff; do n=$(basename $f .diff); tools/sweep_mut.sh benign-$n $f C01 C02 C03 C04 C05 C06 C07 C08 C09 C10 C11 C12 C13 C14 C15 C16 C17 C18; done
