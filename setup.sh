#!/bin/bash
# Builds the framework from files on disk only (offline); warms the Go build cache for plain and -race builds.
set -eu
cd /verif
export GOFLAGS=-mod=mod GOPROXY=off GOSUMDB=off GOTOOLCHAIN=local
mkdir -p bin out evidence
cp /repo/go.sum harness/go.sum
( cd harness && go build -tags verif -o /verif/bin/vcheck ./cmd/vcheck )
( cd harness && go build -race -tags verif -o /verif/bin/vcheck.race ./cmd/vcheck )
( cd /repo && go build -tags verif -o /verif/bin/acv ./cmd )
echo "setup ok"
